"""C10 - the parsed polynomial equals the polynomial written (all file syntaxes + string API).

Proof side : coq/Props/Properties_C10.v (model in coq/PolFile/*.v) re-checked by coqc.
Tie        : descriptions d are drawn here, rendered to file text by the EXTRACTED Coq `render`
             (bin/polfile), the bytes are parsed by the real parsers (harness/c10_parse.c:
             mps_parse_file / mps_parse_stream / mps_parse_string) and every field/coefficient
             is compared exactly with the extracted `denote d` (decimals: relative error
             <= 2^-prec, prec = declared bits or 64).  The same text also goes through the
             extracted model parser; model /= real with the predicate true is a correspondence
             failure.  mps_monomial_poly_set_coefficient_s and
             mps_utils_build_equivalent_rational_string are compared with the character-level
             Coq model and with an independent Fraction oracle; build_equivalent_rational_string of
             common/inline-poly-parser.c (string, exponent, sign, error flag) with the extracted build_ers.
             Legacy 2.x: every generated 2.x file also goes through the extracted statement-by-statement
             reader read_v2 (class of exit + refinement to parse); hand-made 2.x headers (all 18 type
             triples, refused type words, junk precision/degree words, missing tokens) are run through
             read_v2 and the real parser and the exit taken (error message) is compared.
             FloatingPoint: the property's predicate is also evaluated by the EXTRACTED within_precb on the
             real parser's mpf values (must agree with the exact Fraction predicate), and the model store
             mpf_store at the real mpf precision must satisfy it.
"""
import os, json
from fractions import Fraction
import vf

KINDS = {"M": "monomial", "S": "secular", "C": "chebyshev"}


# ----------------------------------------------------------------------------- encoding helpers
def xh(s):
    if isinstance(s, str): s = s.encode("latin-1")
    return "x" + s.hex()

def unx(s):
    return bytes.fromhex(s[1:])

def us(s):
    return s if s else "_"


class Lit:
    """decimal literal as written"""
    def __init__(self, sign, ip, dot, fp, exp):
        self.sign, self.ip, self.dot, self.fp, self.exp = sign, ip, dot, fp, exp   # exp = None | (mark, 'N'|'P'|'M', digits)

    def text(self):
        s = self.sign + self.ip + ("." + self.fp if self.dot else "")
        if self.exp:
            s += self.exp[0] + {"N": "", "P": "+", "M": "-"}[self.exp[1]] + self.exp[2]
        return s

    def enc(self):
        e = "~" if not self.exp else "%s:%s:%s" % (self.exp[0], self.exp[1], us(self.exp[2]))
        return "F,%s,%s,%d,%s,%s" % (xh(self.sign), us(self.ip), 1 if self.dot else 0, us(self.fp), e)

    def value(self):
        m = int(self.ip + self.fp) if (self.ip + self.fp) else 0
        if self.sign.count("-") % 2: m = -m
        e = 0
        if self.exp:
            e = int(self.exp[2]); e = -e if self.exp[1] == "M" else e
        e -= len(self.fp)
        return Fraction(m) * (Fraction(10) ** e)


# ----------------------------------------------------------------------------- generators
def gen_digits(rng, n, lead_nonzero=False):
    s = "".join(rng.choice("0123456789") for _ in range(n))
    if lead_nonzero and s and s[0] == "0":
        s = rng.choice("123456789") + s[1:]
    return s

def gen_int(rng):
    r = rng.random()
    if r < 0.08: v = 0
    elif r < 0.55: v = rng.randint(1, 999)
    elif r < 0.9: v = int(gen_digits(rng, rng.randint(4, 40), True))
    else: v = int(gen_digits(rng, rng.randint(41, 300), True))
    if rng.random() < 0.45: v = -v
    lz = rng.choice([0, 0, 0, 0, 1, 2, 5])
    return ("I", v, lz)

def gen_rat(rng):
    if rng.random() < 0.15: return gen_int(rng)
    _, n, lzn = gen_int(rng)
    r = rng.random()
    if r < 0.5: d = rng.randint(1, 99)
    elif r < 0.9: d = int(gen_digits(rng, rng.randint(3, 30), True))
    else: d = int(gen_digits(rng, rng.randint(31, 300), True))
    if rng.random() < 0.3 and n != 0:           # force a common factor: canonicalisation matters
        g = rng.choice([2, 3, 10, 7 * 11, 2 ** 40])
        n *= g; d *= g
    return ("Q", n, lzn, d, rng.choice([0, 0, 0, 1, 3]))

SPECIAL_LITS = [("-", "0", False, "", None), ("", "", True, "5", None), ("", "5", True, "", None),
                ("", "0", True, "0", None), ("-", "", True, "5", None), ("", "000", True, "000", ("e", "P", "05")),
                ("", "1", False, "", ("e", "P", "05")), ("", "1", False, "", ("E", "M", "3")),
                ("", "0", True, "1", None), ("-", "0", True, "3333333333333333333333333333333333333333333333333333333333", None),
                ("", "1", False, "", ("e", "N", "400")), ("", "1", False, "", ("e", "M", "400")),
                ("", "007", True, "250", ("E", "N", "0"))]

def gen_lit(rng, api=False, light=False):
    if rng.random() < 0.12 and not light:
        sg, ip, dot, fp, ex = rng.choice(SPECIAL_LITS)
        if ex and ex[0] == "@" and api: ex = ("e",) + ex[1:]
        return Lit(sg, ip, dot, fp, ex)
    if api:
        sg = rng.choice(["", "", "", "-", "-", "+", "--", " -", "- ", "+-", " ", "-+", "  +"])
    else:
        sg = rng.choice(["", "", "-"])
    r = rng.random()
    ni = rng.choice([0, 1, 1, 2, 3, 8, 20]) if (r < 0.97 or light) else rng.randint(21, 300)
    dot = rng.random() < 0.75
    nf = 0
    if dot:
        r = rng.random()
        nf = rng.choice([0, 1, 2, 3, 6, 16, 17, 18, 19, 20, 25]) if (r < 0.96 or light) else rng.randint(26, 400)
    if ni + nf == 0:
        ni = 1
    ip = gen_digits(rng, ni); fp = gen_digits(rng, nf)
    ex = None
    if rng.random() < 0.5:
        marks = "eE" if api else "eEeE@"
        r = rng.random()
        ev = rng.randint(0, 9) if r < 0.5 else rng.randint(10, 60) if (r < 0.96 or light) else rng.randint(61, 400)
        ed = str(ev)
        if rng.random() < 0.2: ed = "0" * rng.randint(1, 2) + ed
        ex = (rng.choice(marks), rng.choice("NPM"), ed)
    return Lit(sg, ip, dot, fp, ex)

def num_enc(x):
    if isinstance(x, Lit): return x.enc()
    if x[0] == "I": return "I,%d,%d" % (x[1], x[2])
    return "Q,%d,%d,%d,%d" % (x[1], x[2], x[3], x[4])

def num_kind(x):
    if isinstance(x, Lit):
        return "dec" + ("+exp" if x.exp else "") + ("+frac" if x.dot else "")
    return {"I": "int", "Q": "rat"}[x[0]]

ZERO = ("I", 0, 0)

def gen_comment(rng):
    pool = ["", " coefficient", " Degree=3;", " x^2 ! nested", "!;!", " real; integer", "\t tab", " 1.5e3 42",
            " caf\xe9", " ;;;", " Sparse;"]
    return rng.choice(pool)

def gen_filler(rng, allow_blank=True):
    if allow_blank and rng.random() < 0.5:
        return "B,%d" % rng.choice([0, 0, 1, 3])
    return "C,%d,%s" % (rng.choice([0, 0, 1, 4]), xh(gen_comment(rng)))

def gen_case(rng, tier_big):
    """returns (driver command lines, meta dict)"""
    r = rng.random()
    kind = "M" if r < 0.6 else ("S" if r < 0.8 else "C")
    legacy = kind == "M" and rng.random() < 0.3
    r = rng.random()
    if r < 0.7: n = rng.randint(1, 8)
    elif r < 0.95: n = rng.randint(9, 40)
    else: n = rng.randint(41, 200)
    real = rng.random() < 0.5
    ct = rng.choice("IQF")
    sparse = rng.random() < 0.45
    prec = None
    if rng.random() < 0.4:
        prec = rng.choice([1, 5, 15, 16, 19, 20, 30, 50, 100, 400, 1000])
    gen = {"I": gen_int, "Q": gen_rat, "F": gen_lit}[ct]
    light = n > 12                      # keep the big-degree files cheap
    def one():
        x = gen(rng, light=True) if (ct == "F" and light) else gen(rng)
        if light and not isinstance(x, Lit) and abs(x[1]) > 10 ** 40:
            x = (x[0], x[1] % (10 ** 20),) + tuple(x[2:])
        return x
    terms, bterms = [], []
    order = "dense"
    if kind == "S":
        for i in range(n):
            terms.append((i, one(), ZERO if real else one()))
            bterms.append((i, one(), ZERO if real else one()))
    else:
        if sparse:
            k = rng.randint(1, min(n + 1, 12))
            idx = rng.sample(range(n + 1), k)
            if rng.random() < 0.6 and n not in idx: idx[0] = n          # index = degree
            if rng.random() < 0.3 and 0 not in idx and len(idx) > 1: idx[-1] = 0
            idx = list(dict.fromkeys(idx))
            order = rng.choice(["asc", "desc", "shuffled"])
            if order == "asc": idx.sort()
            elif order == "desc": idx.sort(reverse=True)
            else: rng.shuffle(idx)
        else:
            idx = list(range(n + 1))
        for i in idx:
            terms.append((i, one(), ZERO if real else one()))
    L = ["CASE", "D %d %s %d %d %s %d %s" % (legacy, kind, n, real, ct, sparse, prec if prec else "~")]
    for (i, a, b) in terms: L.append("T %d %s %s" % (i, num_enc(a), num_enc(b)))
    for (i, a, b) in bterms: L.append("B %d %s %s" % (i, num_enc(a), num_enc(b)))
    # ---- style
    header_simple = True
    for _ in range(rng.choice([0, 0, 1, 2, 3])):
        f = gen_filler(rng)
        if not f.startswith("C,0,"): header_simple = False
        L.append("H " + f)
    L.append("X " + "".join(rng.choice("01") for _ in range(4)))
    nopts = 6
    for _ in range(nopts):
        if rng.random() < 0.4:
            L.append("O 0 - 0 0 0 0 ~ -")
        else:
            mask = "".join(rng.choice("01") for _ in range(13)) if rng.random() < 0.7 else "-"
            pre = ",".join(xh(gen_comment(rng)) for _ in range(rng.choice([0, 0, 1, 2]))) or "-"
            com = xh(gen_comment(rng)) if rng.random() < 0.3 else "~"
            L.append("O %d %s %d %d %d %d %s %s" % (rng.choice([0, 0, 1, 3]), mask, rng.choice([0, 0, 1, 2]),
                                                     rng.choice([0, 0, 1, 2]), rng.choice([0, 0, 1, 2]),
                                                     rng.choice([0, 0, 1, 2]), com, pre))
    for _ in range(rng.choice([0, 1, 1, 2])):
        L.append("S " + gen_filler(rng))
    chunk_style = rng.choice(["one", "pair", "row", "random"])
    per = (1 if real else 2) * (2 if kind == "S" else 1) + (1 if sparse and kind != "S" else 0)
    if legacy and ct == "Q": per = per * 2 - (1 if sparse else 0)
    ntok = 500
    if chunk_style == "one": ks = "-" if rng.random() < 0.5 else ",".join(["0"] * 8)
    elif chunk_style == "pair": ks = ",".join([str(per - 1)] * min(ntok, 260))
    elif chunk_style == "row": ks = "999"
    else: ks = ",".join(str(rng.choice([0, 1, 2, 3, 5])) for _ in range(60))
    if chunk_style == "one" and ks == "-":
        ks = ",".join(["0"] * 1200)
    L.append("K " + ks)
    for _ in range(rng.choice([0, 2, 6, 20])):
        pre = ";".join(gen_filler(rng) for _ in range(rng.choice([0, 0, 0, 1, 2]))) or "-"
        gaps = ",".join(str(rng.choice([0, 0, 1, 4])) for _ in range(6))
        com = xh(gen_comment(rng)) if rng.random() < 0.3 else "~"
        L.append("L %d %s %d %s %s" % (rng.choice([0, 0, 1, 5]), gaps, rng.choice([0, 0, 2]), com, pre))
    for _ in range(rng.choice([0, 0, 1, 2])):
        L.append("R " + gen_filler(rng))
    L.append("N %d" % (rng.random() < 0.8))
    perm_kind = rng.choice(["id", "degree-last", "random", "random"])
    if perm_kind == "id": L.append("P -")
    elif perm_kind == "degree-last": L.append("P 9,0,0,0,0,0")
    else: L.append("P " + ",".join(str(rng.randint(0, 5)) for _ in range(6)))
    L.append("GO")
    meta = {"kind": kind, "legacy": legacy, "n": n, "real": real, "ct": ct, "sparse": sparse, "prec": prec,
            "order": order, "perm": perm_kind, "layout": chunk_style, "header_simple": header_simple,
            "forms": sorted({num_kind(a) for (_, a, _) in terms[:50]})}
    return L, meta



V2_MSG = [("Error parsing the input file", "no_token"), ("Found unsupported data_type", "data_type"),
          ("Found unsupported data_structure", "data_structure"), ("Found unsupported data structure", "coeff_type"),
          ("Error while reading the input precision", "precision"), ("Error reading the degree", "degree")]

def v2_real_class(real):
    """the exit of mps_monomial_poly_read_from_stream_v2 the real parser took, from its result / error message"""
    if real["ok"]:
        return "v2:user" if real.get("density") == "user" else "v2:poly"
    msg = real.get("msg", "")
    for pat, cls in V2_MSG:
        if pat in msg: return "v2:err:" + cls
    return "v2:err:coefficients"

def gen_v2_header(rng):
    """a hand-made 2.x file aimed at the exits of the header reader; returns (text, tag, type word)"""
    if rng.random() < 0.03:
        return rng.choice(["", "\n", "   \n\n", "! only a comment\n", "\n! c\n  \n", "!x"]), "no-token", ""
    a, b, c = rng.choice("sdu"), rng.choice("rc"), rng.choice("qif")
    if a == "u" and rng.random() < 0.5: a = rng.choice("sd")
    ty = a + b + c
    tag = "triple"
    r = rng.random()
    if r < 0.10: ty += rng.choice(["x", "xyz", "I", "9", "q", "."]); tag = "long-word"
    elif r < 0.18: ty = rng.choice(["x", "D", "S", "U", "1", "-", "t"]) + ty[1:]; tag = "bad-first"
    elif r < 0.26: ty = ty[0] + rng.choice(["x", "R", "C", "i", "q", "0"]) + ty[2]; tag = "bad-second"
    elif r < 0.34: ty = ty[:2] + rng.choice(["z", "Q", "I", "F", "r", "d", "1"]); tag = "bad-third"
    elif r < 0.38: ty = ty[:1]; tag = "one-letter"
    elif r < 0.42: ty = ty[:2]; tag = "two-letters"
    elif r < 0.46: ty = ty.upper(); tag = "upper-case"
    toks = [ty]
    r = rng.random()
    if r < 0.06: return " ".join(toks) + "\n", tag + "/no-precision", ty
    pw = rng.choice(["0", "0", "0", "15", "30", "+5", "007"]) if r < 0.7 else rng.choice(["-3", "12x", "1.5", "abc", "x1", "-", "+", ".5"])
    if r >= 0.7: tag += "/odd-precision"
    toks.append(pw)
    r = rng.random()
    if r < 0.06: return " ".join(toks) + "\n", tag + "/no-degree", ty
    n = rng.randint(0, 5)
    if r < 0.7: dw = str(n)
    else:
        dw = rng.choice(["+%d" % n, "%dabc" % n, "%d.7" % n, "00%d" % n, "-1", "-%d" % (n + 1), "x", "-", "n3"])
        tag += "/odd-degree"
    toks.append(dw)
    # coefficients: small numbers of the right shape (rationals as pairs), sometimes cut short / bad indices
    def part():
        if c == "q": return ["%d" % rng.randint(-9, 9), "%d" % rng.randint(1, 9)]
        if c == "f": return [rng.choice(["1.5", "-2e3", ".25", "7", "0.0", "3E-2"])]
        return ["%d" % rng.randint(-99, 99)]
    def coeff(): return part() + ([] if b == "r" else part())
    body = []
    r = rng.random()
    if a == "s":
        idx = rng.sample(range(n + 1), rng.randint(0, n + 1))
        if r < 0.85: body.append(str(len(idx)))
        else: tag += "/no-count"
        if r >= 0.85: idx = []
        for i in idx: body += [str(i)] + coeff()
        r2 = rng.random()
        if r2 < 0.08 and body: body += [str(n + 1)] + coeff(); tag += "/index-out-of-range"
        elif r2 < 0.16 and idx: body += [str(idx[0])] + coeff(); tag += "/repeated-index"
        elif r2 < 0.22 and body: body += ["k"] + coeff(); tag += "/index-not-a-number"
        elif r2 < 0.28 and idx: body = body[:-1]; tag += "/cut-short"
    else:
        for i in range(n + 1): body += coeff()
        r2 = rng.random()
        if r2 < 0.12 and body: body = body[:-1]; tag += "/cut-short"
        elif r2 < 0.2: body += coeff(); tag += "/extra-tokens"
    toks += body
    out, first = "", True
    if rng.random() < 0.2: out += "! legacy file\n"
    for t in toks:
        out += ("" if first else rng.choice([" ", " ", "\n", "  ", "\t", " ! c\n"])) + t
        first = False
    return out + "\n", tag, ty


def lit_features(l):
    f = []
    sg = l.sign
    f.append("sign:" + ("none" if sg == "" else "minus" if sg == "-" else "plus" if sg == "+" else "blank+sign" if " " in sg and sg.strip() else "blank" if sg.strip() == "" else "several-signs"))
    if l.ip == "" and l.dot: f.append("form:.5")
    elif l.dot and l.fp == "": f.append("form:5.")
    elif l.dot: f.append("form:1.5")
    else: f.append("form:integer")
    if len(l.ip) > 1 and l.ip[0] == "0": f.append("leading-zeros")
    if l.exp:
        f.append("exp:%s%s" % (l.exp[0], {"N": "", "P": "+", "M": "-"}[l.exp[1]]))
        if len(l.exp[2]) > 1 and l.exp[2][0] == "0": f.append("exp-leading-zeros")
    else: f.append("exp:none")
    return f


# ----------------------------------------------------------------------------- result parsing
def parse_model_result(s):
    w = [x for x in s.split(" ") if x]
    if w[0] != "POLY": return {"ok": False, "why": w[0]}
    def hz(x): return int(x, 16)
    i = w.index("C", 7); nc = int(w[i + 1]); cs = w[i + 2:i + 2 + nc]
    j = i + 2 + nc; assert w[j] == "B"; nb = int(w[j + 1]); bs = w[j + 2:j + 2 + nb]
    def co(x):
        a, b, c, d = x.split(","); return ((hz(a), hz(b)), (hz(c), hz(d)))
    return {"ok": True, "kind": KINDS[w[1]], "degree": hz(w[2]), "struct": w[3], "density": w[4], "prec": hz(w[5]),
            "spar": w[6][1:], "c": [co(x) for x in cs], "b": [co(x) for x in bs]}

def mpf_val(s):
    m, e = s.split("@")
    neg = m.startswith("-")
    if neg: m = m[1:]
    v = Fraction(int(m, 16)) * Fraction(16) ** (int(e) - len(m)) if m != "0" else Fraction(0)
    return -v if neg else v

def parse_real_blocks(out):
    blocks, cur = [], None
    for line in out.splitlines():
        if line.startswith("BEGIN "): cur = {"job": line[6:], "lines": []}
        elif line == "END":
            if cur is not None: blocks.append(cur); cur = None
        elif cur is not None: cur["lines"].append(line)
    return blocks, cur

def parse_real_result(lines):
    r = {"ok": False, "Q": {}, "GQ": {}, "M": {}, "D": {}, "eq": None}
    for ln in lines:
        w = ln.split(" ")
        if w[0] == "RESULT":
            r["ok"] = (w[1] == "ok"); r["msg"] = " ".join(w[2:])
        elif w[0] == "KIND": r["kind"] = w[1]
        elif w[0] == "DEGREE": r["degree"] = int(w[1])
        elif w[0] == "STRUCT": r["struct"] = w[1]
        elif w[0] == "DENSITY": r["density"] = w[1]
        elif w[0] == "PREC": r["prec"] = int(w[1])
        elif w[0] == "SPAR": r["spar"] = w[1]
        elif w[0] == "Q": r["Q"][(w[1], int(w[2]))] = ((int(w[3]), int(w[4])), (int(w[5]), int(w[6])), w[7] == "1")
        elif w[0] == "GQ": r["GQ"][int(w[1])] = ((int(w[2]), int(w[3])), (int(w[4]), int(w[5])))
        elif w[0] == "M": r["M"][(w[1], int(w[2]))] = (w[3], w[4], int(w[5]), int(w[6]))
        elif w[0] == "D": r["D"][(w[1], int(w[2]))] = (w[3], w[4])
        elif w[0] == "EQ": r["eq"] = ln[4:-1]
        elif w[0] == "CTXERR": r["ctxerr"] = w[1]
    return r


def frac(nd):
    return Fraction(nd[0], nd[1])

def within(val, exact, bits):
    """|val - exact| <= 2^-bits |exact|"""
    if exact == 0: return val == 0
    return abs(val - exact) * (1 << bits) <= abs(exact)


def site(meta, what, idx=None):
    """violation signature = the defect class and the reader (code site) it points at"""
    k = KINDS[meta["kind"]]; syn = "2x" if meta["legacy"] else "3x"; dens = "sparse" if meta["sparse"] else "dense"
    num = {"I": "integer", "Q": "rational", "F": "floating-point"}[meta["ct"]]
    if what == "fp-precision":
        if k == "secular": return "fp-precision:secular-reader"
        if k == "chebyshev": return "fp-precision:chebyshev-reader:" + ("leading-coefficient" if idx == meta["n"] else "coefficient-below-leading")
        return "fp-precision:monomial-reader/%s/%s" % (syn, dens)
    if what == "noncanonical": return "noncanonical:%s-reader" % k
    if what == "double": return "double-copy:%s-reader/%s/%s" % (k, syn, dens)
    if what == "crash": return "crash:%s-reader/%s/%s/%s" % (k, syn, dens, num)
    return "%s:%s/%s/%s/%s%s" % (what, k, syn, dens, "real-" if meta["real"] else "complex-", num)


def compare(real, exp, fp_tolerant, meta):
    cls = meta
    """Property predicate on the real parser's output against the expected polynomial `exp`
    (dict as parse_model_result).  Returns list of (signature, message).  If fp_tolerant, coefficients are
    compared as values within the declared precision; else raw numerators/denominators must be equal."""
    bad = []
    if not real["ok"]:
        return [(site(meta, "rejected"), "well-formed input rejected: %s" % real.get("msg", ""))]
    for k in ("kind", "degree", "struct", "density", "prec"):
        if real.get(k) != exp[k]:
            bad.append((site(meta, k), "%s is %r, written %r" % (k, real.get(k), exp[k])))
    if bad: return bad
    if exp["kind"] == "monomial" and real.get("spar") != exp["spar"]:
        bad.append((site(meta, "sparsity"), "sparsity pattern %s, written %s" % (real.get("spar"), exp["spar"])))
    bits = exp["prec"] if exp["prec"] > 0 else 64
    for tag, lst in (("c", exp["c"]), ("b", exp["b"])):
        rtag = tag if exp["kind"] != "secular" else ("a" if tag == "c" else "b")
        for i, (re_, im_) in enumerate(lst):
            if not fp_tolerant:
                q = real["Q"].get((rtag, i))
                if q is None:
                    bad.append((site(meta, "missing"), "no exact coefficient %s[%d]" % (rtag, i))); break
                for part, got, want in (("re", q[0], re_), ("im", q[1], im_)):
                    if got[1] == 0 or frac(got) != frac(want):
                        bad.append((site(meta, "value"), "%s[%d].%s = %d/%d, written %d/%d" % (rtag, i, part, got[0], got[1], want[0], want[1]))); break
                    if got != want:
                        bad.append((site(meta, "noncanonical"), "%s[%d].%s stored as %d/%d (not canonical), value %d/%d" % (rtag, i, part, got[0], got[1], want[0], want[1]))); break
                if rtag == "c" and exp["kind"] == "monomial" and i in real["GQ"]:
                    g = real["GQ"][i]
                    if g[0][1] == 0 or g[1][1] == 0 or frac(g[0]) != frac(re_) or frac(g[1]) != frac(im_):
                        bad.append((site(meta, "get_q"), "mps_monomial_poly_get_coefficient_q(%d) differs from the written value" % i))
            m = real["M"].get((rtag, i))
            if m is None:
                bad.append((site(meta, "missing"), "no mp coefficient %s[%d]" % (rtag, i))); break
            for part, got, want in (("re", m[0], re_), ("im", m[1], im_)):
                v = mpf_val(got); w = frac(want)
                b = bits if fp_tolerant else 64
                if not within(v, w, b):
                    sig = site(meta, "fp-precision", i) if fp_tolerant and within(v, w, 60) else site(meta, "mp-value")
                    bad.append((sig, "%s[%d].%s: multiprecision value off by more than 2^-%d relative (declared precision %d bits, mpf has %d)"
                                % (rtag, i, part, b, exp["prec"], m[2]))); break
            dd = real["D"].get((rtag, i))
            if dd is not None:
                for part, got, want in (("re", dd[0], re_), ("im", dd[1], im_)):
                    w = frac(want); v = vf.dhex(got)
                    if w != 0 and not (Fraction(1, 10 ** 300) < abs(w) < Fraction(10 ** 300)): continue
                    if v != v or v in (float("inf"), float("-inf")) or not within(Fraction(v), w, 51):
                        bad.append((site(meta, "double"), "%s[%d].%s: double copy %r vs written %s" % (rtag, i, part, v, float(w)))); break
            if len(bad) > 4: return bad
    return bad


def is_canonical(nd):
    return nd[1] > 0 and Fraction(nd[0], nd[1]).denominator == nd[1]

def same_raw(real_nd, model_nd):
    """stored numerator/denominator as the model predicts; a real result that has the same value and IS canonical
    where the model (of the unfixed code) is not, is accepted: that is the fixed code, not a broken correspondence"""
    if real_nd == model_nd: return True
    return real_nd[1] != 0 and model_nd[1] != 0 and frac(real_nd) == frac(model_nd) and is_canonical(real_nd)


def differs_model(real, mod, fp):
    """model parser outcome vs real parser outcome on the same text"""
    if real["ok"] != mod["ok"]:
        return "real %s, model %s" % ("ok" if real["ok"] else "error", "ok" if mod["ok"] else "error")
    if not real["ok"]: return None
    for k in ("kind", "degree", "struct", "density", "prec"):
        if real.get(k) != mod[k]: return "%s: real %r model %r" % (k, real.get(k), mod[k])
    if mod["kind"] == "monomial" and real.get("spar") != mod["spar"]: return "spar"
    if not fp:
        for tag, lst in (("c", mod["c"]), ("b", mod["b"])):
            rtag = tag if mod["kind"] != "secular" else ("a" if tag == "c" else "b")
            for i, (re_, im_) in enumerate(lst):
                q = real["Q"].get((rtag, i))
                if q is None or not (same_raw(q[0], re_) and same_raw(q[1], im_)):
                    return "raw %s[%d]: real %r model %r" % (rtag, i, q, (re_, im_))
    return None



# ----------------------------------------------------------------------------- C integer conversions
INT_MAX, LONG_MAX = 2 ** 31 - 1, 2 ** 63 - 1
LOG2_10_NUM, LOG2_10_DEN = 7480317065143153, 2 ** 51
INT_SITES = ["3x-degree", "3x-precision", "monomial-sparse-index/3x", "chebyshev-sparse-index", "2x-degree", "2x-precision",
             "monomial-sparse-index/2x"]

def gen_int_value(rng, site, n):
    """a number to be converted by atoi / %d / %ld at `site`, aimed at the case splits of CIntProofs.v:
    returns (class, value)"""
    small_hi = {"3x-degree": 6, "2x-degree": 6, "3x-precision": 400, "2x-precision": 400}.get(site, n)
    small_lo = 0 if "index" in site else 1
    r = rng.random()
    k = rng.choice([1, 1, 2, 3, rng.randint(4, 2 ** 20), rng.randint(2 ** 20, 2 ** 30)])
    if "index" in site and rng.random() < 0.2:
        return "out-of-bounds-plain", rng.choice([n + 1, n + 1, n + 2, n + 40, -1, -2, 1000])
    if r < 0.30: return "wraps-to-small-positive", k * 2 ** 32 + rng.randint(max(small_lo, 1), max(small_hi, 1))
    if r < 0.40: return "wraps-to-zero", k * 2 ** 32
    if r < 0.52: return "wraps-to-negative", k * 2 ** 32 - rng.randint(1, 2 ** 31)
    if r < 0.62: return "wraps-to-large-positive", k * 2 ** 32 + rng.randint(2 ** 20, 2 ** 31 - 1) if "index" in site else k * 2 ** 32 - rng.randint(1, 1000)
    if r < 0.72: return "int-boundary", rng.choice([2 ** 31, 2 ** 31 + 1, 2 ** 32, 2 ** 32 + 1]) if site not in ("3x-degree", "2x-degree") else rng.choice([2 ** 31, 2 ** 32, 2 ** 32 + 1, 2 ** 32 + 2])
    if r < 0.86: return "beyond-long", rng.choice([2 ** 63 - 1, 2 ** 63, 2 ** 64 + 2, 10 ** 19 + 3, int(gen_digits(rng, rng.randint(20, 40), True))])
    if site in ("3x-precision", "2x-precision"):
        return "in-range-large", rng.choice([65535, 65536, 10 ** 5, rng.randint(1000, 3 * 10 ** 6), rng.randint(1000, 3 * 10 ** 6)])
    return "in-range", rng.randint(small_lo, small_hi)

def gen_int_case(rng):
    site = rng.choice(INT_SITES)
    n = rng.randint(1, 5)
    cls, v = gen_int_value(rng, site, n)
    if site == "2x-precision":
        # %ld does not wrap; the LOG2_10 product leaves the range of long near 2.777e18 (words between about 1e8 and
        # there make mpf_set_prec ask for more memory than there is: not run)
        r = rng.random()
        if r < 0.3: cls, v = "in-range", rng.randint(0, 400)
        elif r < 0.55: cls, v = "in-range-large", rng.choice([65535, 65536, 10 ** 5, rng.randint(1000, 3 * 10 ** 6)])
        elif r < 0.8: cls, v = "product-beyond-long", rng.choice([3 * 10 ** 18, 2777 * 10 ** 15, 2 ** 62, 2 ** 63 - 1, 9 * 10 ** 18, rng.randint(2777 * 10 ** 15, 2 ** 63 - 1)])
        else: cls, v = "beyond-long", rng.choice([2 ** 63, 2 ** 64 + 2, 10 ** 19 + 3, int(gen_digits(rng, rng.randint(20, 40), True))])
    word = (rng.choice(["", "", "", "+", "00"]) if v >= 0 else "") + str(v)
    coef = lambda: str(rng.randint(-99, 99))
    field = "degree" if "degree" in site else "prec" if "precision" in site else "index"
    if site == "3x-degree":
        m = (v % 2 ** 32) if (v % 2 ** 32) < 50 else n
        opts = ["Degree=%s;" % word, "Integer;", "Real;"]; rng.shuffle(opts)
        text = "\n".join(opts) + "\n" + " ".join(coef() for _ in range(m + 1)) + "\n"
    elif site == "3x-precision":
        ct = rng.choice(["Integer;", "FloatingPoint;", "Rational;"])
        opts = ["Degree=%d;" % n, "Precision = %s;" % word, ct, "Real;"]; rng.shuffle(opts)
        text = "\n".join(opts) + "\n" + " ".join((coef() + ".5") if ct[0] == "F" else coef() for _ in range(n + 1)) + "\n"
    elif site in ("monomial-sparse-index/3x", "chebyshev-sparse-index"):
        opts = ["Degree=%d;" % n, "Sparse;", "Integer;", "Real;"] + (["Chebyshev;"] if site.startswith("cheb") else [])
        rng.shuffle(opts)
        idx = [i for i in rng.sample(range(n + 1), rng.randint(1, n + 1)) if i != v % 2 ** 32]
        rows = ["%d %s" % (i, coef()) for i in idx]
        rows.insert(rng.randint(0, len(rows)), "%s %s" % (word, coef()))
        text = "\n".join(opts) + "\n" + "\n".join(rows) + "\n"
    elif site == "2x-degree":
        m = (v % 2 ** 32) if (v % 2 ** 32) < 50 else n
        text = "dri 0 %s\n%s\n" % (word, " ".join(coef() for _ in range(m + 1)))
    elif site == "2x-precision":
        text = "%s %s %d\n%s\n" % (rng.choice(["dri", "dri", "drq"]), word, n, " ".join(coef() if True else "" for _ in range(n + 1)))
        if text.startswith("drq"): text = "drq %s %d\n%s\n" % (word, n, " ".join("%s 1" % coef() for _ in range(n + 1)))
    else:
        idx = [i for i in rng.sample(range(n + 1), rng.randint(1, n + 1)) if i != v % 2 ** 32]
        rows = ["%d %s" % (i, coef()) for i in idx]
        rows.insert(rng.randint(0, len(rows)), "%s %s" % (word, coef()))
        text = "sri 0 %d %d\n%s\n" % (n, len(rows), "\n".join(rows))
    return {"site": site, "class": cls, "written": v, "field": field, "text": text, "n": n}

def int_in_range(case):
    v, site = case["written"], case["site"]
    if case["field"] == "degree": return 1 <= v <= INT_MAX - 1
    if case["field"] == "index": return 0 <= v <= case["n"]
    return 1 <= v <= INT_MAX if site == "3x-precision" else 0 <= v < 2 ** 51

def int_predicate(case, real):
    """the property on one of these files: None if it holds, else what is wrong.  A number that is outside the range
    of its C type (or an index above the degree) must not be accepted as another number."""
    if not real["ok"]:
        return "well-formed input rejected: %s" % real.get("msg", "") if int_in_range(case) else None
    v = case["written"]
    if case["field"] == "degree" and real.get("degree") != v:
        return "degree written %d, parsed object has degree %r" % (v, real.get("degree"))
    if case["field"] == "index" and not (0 <= v <= case["n"]):
        return "sparse index %d (degree %d) accepted: stored as another coefficient" % (v, case["n"])
    if case["field"] == "prec":
        exact = v * LOG2_10_NUM // LOG2_10_DEN
        if real.get("prec") not in (exact, exact + 1):
            return "precision written %d digits (%d bits), parsed object has prec = %r bits" % (v, exact, real.get("prec"))
    return None

def int_range_cases(ctx, h, n_cases, cov, fixed=None):
    """numbers beyond (and at) the range of the C types they are converted to, at each of the seven conversion sites:
    extracted model parser (atoi / scan_int / scan_long / prec_bits of CIntModel.v inside parse) against the real parsers;
    the Coq witnesses of C10_integer_range_refuted first"""
    rng = ctx.rng
    d = os.path.join(ctx.scratch, "cint"); os.makedirs(d, exist_ok=True)
    wit = [("3x-degree", "degree", 4294967298, 2, "Degree=4294967298;\nInteger;\nReal;\n1 2 3\n"),
           ("3x-precision", "prec", 4294967306, 1, "Degree=1;\nPrecision=4294967306;\nReal;\n1.5 2.5\n"),
           ("monomial-sparse-index/3x", "index", 4294967296, 2, "Degree=2;\nSparse;\nInteger;\nReal;\n4294967296 7\n2 1\n"),
           ("chebyshev-sparse-index", "index", 4294967297, 2, "Degree=2;\nChebyshev;\nSparse;\nInteger;\nReal;\n4294967297 7\n2 1\n"),
           ("2x-degree", "degree", 4294967298, 2, "dri 0 4294967298 1 2 3\n"),
           ("monomial-sparse-index/2x", "index", 4294967296, 2, "sri 0 2 2 4294967296 7 2 1\n"),
           ("2x-precision", "prec", 3 * 10 ** 18, 1, "dri 3000000000000000000 1 1 2\n")]
    cases = [{"site": s_, "class": "coq-witness", "written": v, "field": f_, "text": t, "n": n} for (s_, f_, v, n, t) in wit]
    cases += fixed or [gen_int_case(rng) for _ in range(n_cases)]
    jobs = []
    for k, c in enumerate(cases):
        c["mode"] = c.get("mode") or rng.choice("FFTS")
        p = os.path.join(d, "i_%d.pol" % k)
        with open(p, "w") as f: f.write(c["text"])
        jobs.append("%s %s" % (c["mode"], p))
    blocks = run_harness_resume(ctx, h, jobs)
    mout = ctx.run_model("polfile", "".join("TEXT %s\n" % xh(c["text"]) for c in cases)).splitlines()
    if len(mout) != 2 * len(cases):
        raise vf.InfraError("polfile driver TEXT: expected %d lines, got %d" % (2 * len(cases), len(mout)))
    hist, reproduced, checked_rej = {}, {}, 0
    for k, (c, blk) in enumerate(zip(cases, blocks)):
        cov["evaluations"] += 1
        key = "%s/%s" % (c["site"], c["class"]); hist[key] = hist.get(key, 0) + 1
        rep = {"mode": c["mode"], "text_hex": c["text"].encode("latin-1").hex(), "what_for": "int-range", "site": c["site"],
               "written": str(c["written"]), "field": c["field"], "n": c["n"], "class": c["class"]}
        line = mout[2 * k + (1 if c["mode"] == "S" else 0)]
        mod = parse_model_result(line.split(" ", 1)[1])
        if "crash" in blk:
            w32 = (c["written"] + 2 ** 31) % 2 ** 32 - 2 ** 31 if abs(c["written"]) < 2 ** 63 else -1
            if c["site"] == "chebyshev-sparse-index" and not mod["ok"] and not (0 <= w32 <= c["n"]):
                # the index (as converted by %d) is outside 0..n: the Chebyshev reader uses it unchecked
                sig = "crash:chebyshev-reader/sparse-index-not-checked"
            else:
                sig = "crash:int-range/%s:%s" % (c["site"], c["written"])
            ctx.violation(sig, "the real parser crashed on %r (index %d as int, degree %d): %s" % (c["text"][:60], w32, c["n"], blk["crash"][:300].replace("\n", " | ")),
                          dict(rep, stderr=blk["crash"]))
            continue
        real = parse_real_result(blk["lines"])
        bad = int_predicate(c, real)
        if bad:
            reproduced[c["site"]] = reproduced.get(c["site"], 0) + 1
            if not ctx.violation("int-overflow:" + c["site"], "a number outside the range of its C type is silently taken for another one (%s): %s; file %r"
                                 % (c["class"], bad, c["text"][:70]), rep) and reproduced[c["site"]] == 1:
                ctx.log("known finding shown by (%s, written %d): %s; file %r" % (c["class"], c["written"], bad, c["text"][:70]))
        dm = differs_model(real, mod, real.get("struct", "")[-1:] == "f")
        if dm and not real["ok"] and not int_in_range(c):
            checked_rej += 1            # the repaired code: out-of-range numbers are refused (checked_digits of CIntParse.v)
        elif dm:
            cov["disagreements"] += 1
            ctx.violation("correspondence:int-range/" + c["site"], "C integer conversion, model and real parser disagree (%s, written %d): %s on %r"
                          % (c["class"], c["written"], dm, c["text"][:70]), rep, no_input=True)
    cov["integer_conversion"] = {"cases": len(cases), "site/class": hist, "silently_wrapped_on_real_code": reproduced,
                                 "out_of_range_refused_by_real_code_only": checked_rej}


# ----------------------------------------------------------------------------- the public coefficient setters
def gen_setter_ops(rng, n):
    """a sequence of setter calls on a fresh polynomial of degree n; mostly one family (no assertion can fail), sometimes mixed"""
    r = rng.random()
    fam = "int" if r < 0.25 else "rat" if r < 0.6 else "flt" if r < 0.8 else "mixed"
    k = rng.choice([1, 2, 3, n + 1, 2 * n + 2, 3 * n])
    ops = []
    def small(): return rng.choice([0, 0, 1, -1, 2, rng.randint(-10 ** 6, 10 ** 6), rng.randint(-2 ** 62, 2 ** 62)])
    def dbl(): return rng.choice([0.0, 0.0, 1.0, -2.5, 0.1, 1e300, -1e-300, rng.uniform(-10, 10), float(rng.randint(-2 ** 53, 2 ** 53))])
    for j in range(k):
        i = rng.randint(0, n)
        if fam == "mixed": f = rng.choice(["int", "rat", "rat", "flt", "mpc"]) if j else rng.choice(["int", "int", "rat", "flt", "mpc"])
        else: f = fam if not (fam == "flt" and rng.random() < 0.3) else "mpc"
        real_only = rng.random() < 0.5
        if f == "int":
            ops.append(("int", i, small(), 0 if real_only else small()))
        elif f == "rat":
            if rng.random() < 0.5:
                a = gen_rat(rng); b = ZERO if real_only else gen_rat(rng)
                fr = lambda q: Fraction(q[1]) if q[0] == "I" else Fraction(q[1], q[3])
                ops.append(("q", i, fr(a), fr(b)))
            else:
                def st():
                    r_ = rng.random()
                    if r_ < 0.15: return None
                    if r_ < 0.3:
                        q = gen_rat(rng); return str(q[1]) if q[0] == "I" else "%d/%d" % (q[1], q[3])
                    return gen_lit(rng, api=True, light=True).text()
                ops.append(("s", i, st(), None if real_only else st()))
        elif f == "flt":
            ops.append(("d", i, dbl(), 0.0 if real_only else dbl()))
        else:
            ops.append(("f", i, rng.choice([53, 64, 128, 200]), dbl(), 0.0 if real_only else dbl()))
    return fam, ops

def setter_ops_from_replay(ops):
    out = []
    for o in ops:
        k = o[0]
        if k == "int": out.append(("int", int(o[1]), int(o[2]), int(o[3])))
        elif k == "q": out.append(("q", int(o[1]), Fraction(o[2]), Fraction(o[3])))
        elif k == "s": out.append(("s", int(o[1]), None if o[2] == "None" else o[2], None if o[3] == "None" else o[3]))
        elif k == "d": out.append(("d", int(o[1]), float(o[2]), float(o[3])))
        else: out.append(("f", int(o[1]), int(o[2]), float(o[3]), float(o[4])))
    return out

def setter_cases(ctx, h, n_cases, cov, fixed=None):
    """sequences of mps_monomial_poly_set_coefficient_{int,q,s,d,f} on a fresh polynomial: the real stores (structure, spar,
    initial_mqp_r/i, mfpc, get_coefficient_q) against the extracted SetterModel.run, and the get-after-set law evaluated
    independently here (last exact value written at each index; API strings by the Fraction oracle)"""
    rng = ctx.rng
    d = os.path.join(ctx.scratch, "setters"); os.makedirs(d, exist_ok=True)
    cases, jobs, mlines = [], [], []
    def fq(x): return "%d,%d" % (x.numerator, x.denominator)
    plan = fixed if fixed is not None else [None] * n_cases
    for k, fx in enumerate(plan):
        n = rng.randint(1, 6)
        fam, ops = gen_setter_ops(rng, n)
        if fx is not None: n, fam, ops = fx
        p = os.path.join(d, "p_%d.txt" % k)
        enc = []
        with open(p, "w", encoding="latin-1") as f:
            f.write("%d\n" % n)
            for o in ops:
                if o[0] == "int": f.write("int\t%d\t%d\t%d\n" % o[1:]); enc.append("I,%d,%d,%d" % o[1:])
                elif o[0] == "q": f.write("q\t%d\t%s\t%s\n" % (o[1], o[2], o[3])); enc.append("Q,%d,%s,%s" % (o[1], fq(o[2]), fq(o[3])))
                elif o[0] == "s":
                    f.write("s\t%d\t%s\t%s\n" % (o[1], "NULL" if o[2] is None else o[2], "NULL" if o[3] is None else o[3]))
                    enc.append("S,%d,%s,%s" % (o[1], "~" if o[2] is None else xh(o[2]), "~" if o[3] is None else xh(o[3])))
                elif o[0] == "d":
                    f.write("d\t%d\t%s\t%s\n" % (o[1], o[2].hex(), o[3].hex())); enc.append("D,%d,%s,%s" % (o[1], fq(Fraction(o[2])), fq(Fraction(o[3]))))
                else:
                    f.write("f\t%d\t%d\t%s\t%s\n" % (o[1], o[2], o[3].hex(), o[4].hex())); enc.append("F,%d,%s,%s" % (o[1], fq(Fraction(o[3])), fq(Fraction(o[4]))))
        cases.append((n, fam, ops)); jobs.append("P " + p); mlines.append("SETTERS %d %s" % (n, ";".join(enc)))
    blocks = run_harness_resume(ctx, h, jobs)
    mout = ctx.run_model("polfile", "\n".join(mlines) + "\n").splitlines()
    if len(mout) != len(cases):
        raise vf.InfraError("polfile driver SETTERS: expected %d lines, got %d" % (len(cases), len(mout)))
    hist = {"family": {}, "calls": {}, "outcome": {}, "setter": {}}
    def bump(a, b): hist[a][b] = hist[a].get(b, 0) + 1
    def str_val(t):
        """the value a string denotes for set_coefficient_s, by the oracle; None if outside its domain"""
        if t is None: return Fraction(0)
        try:
            if "/" in t: return Fraction(t)
            t2 = t.replace(" ", ""); sg = 1
            while t2[:1] in "+-":
                if t2[0] == "-": sg = -sg
                t2 = t2[1:]
            return sg * Fraction(t2)
        except (ValueError, ZeroDivisionError):
            return None
    for (n, fam, ops), blk, ml in zip(cases, blocks, mout):
        cov["evaluations"] += 1
        bump("family", fam); bump("calls", "1-3" if len(ops) <= 3 else "4-12" if len(ops) <= 12 else ">12")
        for o in ops: bump("setter", o[0])
        rep = {"mode": "setters", "degree": n, "ops": [[str(x) for x in o] for o in ops]}
        w = ml.split(" ")
        if "crash" in blk:
            asserted = "Assertion" in blk["crash"]
            bump("outcome", "assertion-abort" if asserted else "crash")
            if not asserted:
                ctx.violation("crash:setters", "setter sequence crashes: %s" % blk["crash"][:300].replace("\n", " | "), dict(rep, stderr=blk["crash"]))
            elif w[1] != "ABORT":
                cov["disagreements"] += 1
                ctx.violation("correspondence:setters/abort", "a setter's assertion fails on the real code, the model says %s" % " ".join(w[1:3]), rep, no_input=True)
            continue
        real = parse_real_result(blk["lines"])
        if w[1] in ("ABORT", "OOB"):
            cov["disagreements"] += 1
            ctx.violation("correspondence:setters/abort", "the model says %s, the real setters return" % w[1], rep, no_input=True)
            continue
        bump("outcome", "ok/" + real.get("struct", "?"))
        # ---- the law, evaluated here: last exact write per index, spar of the last write
        last, nz, ok_oracle = {}, {}, True
        for o in ops:
            if o[0] == "int": last[o[1]] = (Fraction(o[2]), Fraction(o[3])); nz[o[1]] = o[2] != 0 or o[3] != 0
            elif o[0] == "q": last[o[1]] = (o[2], o[3]); nz[o[1]] = o[2] != 0 or o[3] != 0
            elif o[0] == "s":
                a, b = str_val(o[2]), str_val(o[3])
                if a is None or b is None: ok_oracle = False; break
                last[o[1]] = (a, b); nz[o[1]] = a != 0 or b != 0
            elif o[0] == "d": nz[o[1]] = o[2] != 0 or o[3] != 0
            else: nz[o[1]] = o[3] != 0 or o[4] != 0
        exact = real.get("struct", "??")[-1:] in ("i", "q")
        if ok_oracle:
            for i in range(n + 1):
                q = real["Q"].get(("c", i))
                want = last.get(i, (Fraction(0), Fraction(0)))
                if q is None or q[0][1] == 0 or q[1][1] == 0 or (frac(q[0]), frac(q[1])) != want:
                    ctx.violation("setters:get-after-set", "initial_mqp[%d] = %r after the calls, the last exact value set there is %s" % (i, q and q[:2], want), rep); break
                if not (is_canonical(q[0]) and is_canonical(q[1])):
                    ctx.violation("noncanonical:api/setters", "initial_mqp[%d] = %r is not canonical" % (i, q[:2]), rep); break
                if exact and i in real["GQ"] and (frac(real["GQ"][i][0]), frac(real["GQ"][i][1])) != want:
                    ctx.violation("setters:get_q", "mps_monomial_poly_get_coefficient_q(%d) differs from the last value set" % i, rep); break
                if real.get("spar", "")[i:i + 1] != ("1" if nz.get(i, False) else "0"):
                    ctx.violation("setters:spar", "spar[%d] = %s, the last value written there is %szero" % (i, real.get("spar", "")[i:i + 1], "non-" if nz.get(i) else ""), rep); break
            st = real.get("struct", "??")
            if st[-1:] == "i" and any(v[0].denominator != 1 or v[1].denominator != 1 for v in last.values()):
                ctx.violation("setters-structure:integer-with-rational-coefficient", "structure is %s but a coefficient set through _q/_s is not an integer" % st, rep)
            elif st[:1] == "r" and st[-1:] in ("i", "q") and any(v[1] != 0 for v in last.values()):
                ctx.violation("setters-structure:real-with-complex-coefficient", "structure is %s but a stored coefficient has a non-zero imaginary part" % st, rep)
        # ---- model vs real: structure, spar, exact store, mfpc
        i_q = w.index("Q"); i_fp = w.index("FP"); i_get = w.index("GET")
        m_struct, m_spar = w[1], w[2][1:]
        mq = w[i_q + 1:i_fp]; mfp = w[i_fp + 1:i_get]
        dm = None
        if {"unknown": "??"}.get(m_struct, m_struct) != real.get("struct"): dm = "structure: real %s model %s" % (real.get("struct"), m_struct)
        elif m_spar != real.get("spar"): dm = "spar: real %s model %s" % (real.get("spar"), m_spar)
        elif (w[i_get + 1] == "1") != exact: dm = "get_q answers: model %s" % w[i_get + 1]
        else:
            for i in range(n + 1):
                a, b, c, e = (int(x, 16) for x in mq[i].split(","))
                q = real["Q"].get(("c", i))
                if q is None or (q[0], q[1]) != ((a, b), (c, e)): dm = "initial_mqp[%d]: real %r model %r" % (i, q and q[:2], ((a, b), (c, e))); break
                m = real["M"].get(("c", i))
                if mfp[i].startswith("e,"):
                    x = [int(t, 16) for t in mfp[i].split(",")[1:]]
                    if m is None or mpf_val(m[0]) != Fraction(x[0], x[1]) or mpf_val(m[1]) != Fraction(x[2], x[3]):
                        dm = "mfpc[%d]: real %r, model exactly %s" % (i, m and m[:2], mfp[i]); break
                elif mfp[i] == "q":
                    if m is None or not within(mpf_val(m[0]), Fraction(a, b), 63) or not within(mpf_val(m[1]), Fraction(c, e), 63):
                        dm = "mfpc[%d] is not the rounding of the exact coefficient" % i; break
                elif m is None or mpf_val(m[0]) != 0 or mpf_val(m[1]) != 0:
                    dm = "mfpc[%d] not zero on a fresh polynomial" % i; break
        if dm:
            cov["disagreements"] += 1
            ctx.violation("correspondence:setters", "setter model and real stores disagree: " + dm, rep, no_input=True)
    cov["setter_sequences"] = hist

# ----------------------------------------------------------------------------- the check
def run_harness(ctx, h, jobs, timeout=600):
    rc, out, err = vf.sh([h], input="\n".join(jobs) + "\n", timeout=timeout, env=ctx.san_env())
    blocks, partial = parse_real_blocks(out)
    return rc, blocks, partial, err


def run_harness_resume(ctx, h, jobs):
    """like run_harness, but a job that kills the harness is recorded as {"crash": stderr} and the rest is resumed"""
    res, pos = [], 0
    while pos < len(jobs):
        rc, blocks, partial, err = run_harness(ctx, h, jobs[pos:])
        res += blocks
        pos += len(blocks)
        if pos < len(jobs):
            res.append({"job": jobs[pos], "lines": [], "crash": "rc=%d %s" % (rc, err[-1500:])})
            pos += 1
    return res


def cls_of(meta, mode):
    return "%s/%s/%s/%s%s/%s" % (KINDS[meta["kind"]], "2x" if meta["legacy"] else "3x", "sparse" if meta["sparse"] else "dense",
                                   "r" if meta["real"] else "c", {"I": "i", "Q": "q", "F": "f"}[meta["ct"]], mode)


def api_cases(ctx, h, n_cases, cov):
    """mps_monomial_poly_set_coefficient_s and mps_utils_build_equivalent_rational_string"""
    rng = ctx.rng
    jobs, plans, mlines = [], [], []
    for k in range(n_cases):
        n = rng.randint(1, 6)
        rows = []
        for i in range(n + 1):
            parts = []
            for _ in range(2):
                r = rng.random()
                if r < 0.12: parts.append(("NULL", Fraction(0), None))
                elif r < 0.22:
                    q = gen_rat(rng)
                    if q[0] == "I": parts.append((str(q[1]), Fraction(q[1]), None))
                    else: parts.append(("%d/%d" % (q[1], q[3]), Fraction(q[1], q[3]), None))
                else:
                    l = gen_lit(rng, api=True); parts.append((l.text(), l.value(), l))
            rows.append((i, parts[0], parts[1]))
        p = os.path.join(ctx.scratch, "api_%d.txt" % k)
        with open(p, "w", encoding="latin-1") as f:
            f.write("%d\n" % n)
            for (i, a, b) in rows: f.write("%d\t%s\t%s\n" % (i, a[0], b[0]))
        jobs.append("A " + p); plans.append(rows)
        for (i, a, b) in rows:
            for x in (a, b):
                if x[0] != "NULL": mlines.append("DECRAT " + xh(x[0]))
    # every string also through the conversion alone
    strs = [x[0] for rows in plans for (_, a, b) in rows for x in (a, b) if x[0] != "NULL"]
    rjobs = ["R " + s for s in strs]
    rc, blocks, partial, err = run_harness(ctx, h, jobs + rjobs)
    if rc != 0 or len(blocks) != len(jobs) + len(rjobs):
        ctx.violation("api:harness-crash", "harness died in API mode (rc=%d): %s" % (rc, err[-400:]),
                      {"mode": "api", "job": partial["job"] if partial else None, "stderr": err[-1500:]})
        return
    mout = ctx.run_model("polfile", "\n".join(mlines) + "\n").splitlines()
    model = {}
    for j, s in enumerate(strs):
        eq, raw, val = mout[3 * j:3 * j + 3]
        model[s] = (None if eq == "EQ ~" else unx(eq[3:]).decode("latin-1"),
                    tuple(int(x, 16) for x in raw.split(" ")[1:3]))
    noncanon = 0
    for rows, blk in zip(plans, blocks[:len(jobs)]):
        real = parse_real_result(blk["lines"])
        cov["evaluations"] += 1
        if not real["ok"]:
            ctx.violation("api:rejected", "set_coefficient_s raised an error: %s" % real.get("msg"), {"mode": "api", "rows": [(i, a[0], b[0]) for (i, a, b) in rows]})
            continue
        for (i, a, b) in rows:
            q = real["Q"].get(("c", i))
            if q is None: continue   # floating structure cannot happen here
            for part, x, got in (("re", a, q[0]), ("im", b, q[1])):
                cov["api_strings"] += 1
                rep = {"mode": "api-string", "string": x[0], "stored": list(got), "expected": str(x[1])}
                if got[1] == 0 or frac(got) != x[1]:
                    ctx.violation("api-value:%s" % x[0], "set_coefficient_s(%r) stored %d/%d, the string denotes %s" % (x[0], got[0], got[1], x[1]), rep)
                elif Fraction(got[0], got[1]).denominator != got[1] or (got[0] == 0 and got[1] != 1):
                    noncanon += 1
                    ctx.violation("noncanonical:api/set_coefficient_s", "mps_monomial_poly_set_coefficient_s stores a non-canonical mpq (e.g. %r -> %d/%d)" % (x[0], got[0], got[1]), rep)
                if x[0] != "NULL" and not same_raw(got, model[x[0]][1]):
                    cov["disagreements"] += 1
                    ctx.violation("correspondence:api-raw", "model of set_coefficient_s gives %r, real %r on %r" % (model[x[0]][1], got, x[0]), rep, no_input=True)
    for s, blk in zip(strs, blocks[len(jobs):]):
        real = parse_real_result(blk["lines"])
        got = real["eq"] if real["ok"] else None
        cov["api_strings"] += 1
        if got != model[s][0]:
            cov["disagreements"] += 1
            ctx.violation("correspondence:equiv-string", "mps_utils_build_equivalent_rational_string(%r) = %r, model %r" % (s, got, model[s][0]),
                          {"mode": "equiv", "string": s}, no_input=True)
    cov["api_noncanonical_seen"] = noncanon
    # ---- build_equivalent_rational_string (common/inline-poly-parser.c) itself: string, exponent, sign, error flag
    feat = {}
    lits = {}
    for rows in plans:
        for (_, a, b) in rows:
            for x in (a, b):
                if x[2] is not None:
                    lits[x[0]] = x[1]
                    for f_ in lit_features(x[2]): feat[f_] = feat.get(f_, 0) + 1
    refused, odd = [], []
    for _ in range(ctx.pick(40, 400)):
        sg = rng.choice(["", "", "", "-", "+", "--", "+-"]) if len([r_ for r_ in refused if r_[0] in "+-"]) < ctx.pick(8, 40) else ""
        ip = gen_digits(rng, rng.choice([0, 1, 2, 5])); T = gen_digits(rng, rng.choice([1, 2, 4]))
        if rng.random() < 0.5: body = ip + "." + gen_digits(rng, rng.choice([0, 1, 3])) + "/" + T
        else: body = (ip or "1") + rng.choice("eE") + gen_digits(rng, rng.choice([1, 2])) + "/" + T
        refused.append(sg + body)
    odd = [" 1.5/2", "1e", "1e+", "1.5e5x", "1.5-3", "2+3", "", "-", "abc", "1..5", "1e5e6", "3/4", "-3/4", " 12 ", "1.5x^2", "0", "-0", "00", "000/5"]
    estrs = list(dict.fromkeys(strs + refused + odd))
    eblocks = run_harness_resume(ctx, h, ["B " + s_ for s_ in estrs])
    emout = ctx.run_model("polfile", "".join("ERS %s\n" % xh(s_) for s_ in estrs)).splitlines()
    ers_hist = {"accepted": 0, "refused": 0, "exponent-error-flag": 0}
    for j, (s_, blk) in enumerate(zip(estrs, eblocks)):
        me, mv, ma = emout[3 * j:3 * j + 3]
        if me == "ERS ~": mod = None
        else:
            w = me.split(" "); mod = (unx(w[1]).decode("latin-1"), int(w[2], 16), -1 if w[3] == "1" else 1, w[4] == "1")
        cov["api_strings"] += 1
        rep = {"mode": "inline-ers", "string": s_}
        if "crash" in blk:
            signed_refusal = mod is None and s_[:1] in ("+", "-") and "attempting free" in blk["crash"]
            sig = "crash:build_equivalent_rational_string/refusal-with-sign-prefix" if signed_refusal else "crash:build_equivalent_rational_string:%s" % s_
            ctx.violation(sig, "build_equivalent_rational_string(%r) crashes (%s); the model %s" %
                          (s_, blk["crash"][:160].replace("\n", " | "), "refuses the string (NULL)" if mod is None else "returns %r" % (mod,)),
                          dict(rep, stderr=blk["crash"]))
            ers_hist["refused" if mod is None else "accepted"] += 1
            continue
        got = None
        ctxerr = None
        for ln in blk["lines"]:
            if ln.startswith("ERS ["):
                k_ = ln.rindex("] "); e_, sg_ = ln[k_ + 2:].split(" "); got = (ln[5:k_], int(e_), int(sg_))
            elif ln.startswith("CTXERR "): ctxerr = ln[7:] == "1"
        ers_hist["refused" if got is None else "accepted"] += 1
        if ctxerr: ers_hist["exponent-error-flag"] += 1
        same = (got is None and mod is None) or (got is not None and mod is not None and got == mod[:3] and ctxerr == (not mod[3]))
        # the property's predicate on the real triple, for decimal literals: sign * p * 10^e is the value written
        if s_ in lits and got is not None:
            try:
                val = Fraction(got[0]) * Fraction(10) ** got[1] * got[2]
            except (ValueError, ZeroDivisionError):
                val = None
            if val != lits[s_]:
                ctx.violation("inline-ers-value:%s" % s_, "build_equivalent_rational_string(%r) = (%r, %d, %d) does not denote %s" % (s_, got[0], got[1], got[2], lits[s_]), rep)
                continue
            if mv != "ERSVAL ~":
                mq = Fraction(int(mv.split(" ")[1], 16), int(mv.split(" ")[2], 16))
                if mq != lits[s_]: same = False
            else: same = False
        elif s_ in lits:
            ctx.violation("inline-ers-refused:%s" % s_, "build_equivalent_rational_string refuses the well-formed literal %r" % s_, rep)
            continue
        if not same:
            cov["disagreements"] += 1
            ctx.violation("correspondence:inline-ers", "build_equivalent_rational_string(%r): real %r (error flag %r), model %r" % (s_, got, ctxerr, mod), rep, no_input=True)
        # internal: utils_assemble of the pieces is the utils.c model's result (C10_utils_uses_inline, instantiated)
        if s_ in model and (None if ma == "ASM ~" else unx(ma[4:]).decode("latin-1")) != model[s_][0]:
            ctx.violation("model:utils-assemble", "utils_assemble (build_ers s) differs from equiv_rational_string s on %r" % s_, rep, no_input=True)
    cov["api_histogram"] = {"literal_features": feat, "inline_ers": ers_hist,
                            "inline_ers_inputs": {"api-strings": len(strs), "point-or-exponent-with-slash": len(refused), "odd": len(odd)}}


def v2_header_cases(ctx, h, n_cases, cov):
    """hand-made 2.x files aimed at every exit of mps_monomial_poly_read_from_stream_v2's header reader:
    the extracted statement-by-statement reader (read_v2 through parse_outcome) against the real parser"""
    rng = ctx.rng
    d = os.path.join(ctx.scratch, "v2hdr"); os.makedirs(d, exist_ok=True)
    cases, jobs = [], []
    for k in range(n_cases):
        text, tag, ty = gen_v2_header(rng)
        mode = rng.choice("FFTS")
        p = os.path.join(d, "h_%d.pol" % k)
        with open(p, "w", encoding="latin-1") as f: f.write(text)
        cases.append((text, tag, ty, mode)); jobs.append("%s %s" % (mode, p))
    blocks = run_harness_resume(ctx, h, jobs)
    mout = ctx.run_model("polfile", "".join("OUTCOME %s\n" % xh(t) for (t, _, _, _) in cases)).splitlines()
    if len(mout) != 2 * len(cases):
        raise vf.InfraError("polfile driver OUTCOME: expected %d lines, got %d" % (2 * len(cases), len(mout)))
    hist_exit, hist_tag, hist_word = {}, {}, {}
    for k, ((text, tag, ty, mode), blk) in enumerate(zip(cases, blocks)):
        line = mout[2 * k + (1 if mode == "S" else 0)]
        w = line.split(" ", 2)
        mcls = w[1]
        if mcls == "empty": mcls = "v2:err:no_token"
        cov["evaluations"] += 1
        rep = {"mode": mode, "text_hex": text.encode("latin-1").hex(), "what_for": "v2-header", "tag": tag}
        hist_tag[tag.split("/")[0]] = hist_tag.get(tag.split("/")[0], 0) + 1
        for t_ in tag.split("/")[1:]: hist_tag[t_] = hist_tag.get(t_, 0) + 1
        hist_exit[mcls] = hist_exit.get(mcls, 0) + 1
        wk = ty[:3] if mcls in ("v2:poly", "v2:user") else "(refused or not reached)"
        hist_word[wk] = hist_word.get(wk, 0) + 1
        if "crash" in blk:
            ctx.violation("crash:v2-header/" + mcls, "the real parser crashed on a 2.x file (%s; model exit %s): %s" % (tag, mcls, blk["crash"][:300].replace("\n", " | ")),
                          dict(rep, stderr=blk["crash"]))
            continue
        real = parse_real_result(blk["lines"])
        rcls = v2_real_class(real)
        dm = None
        if rcls != mcls: dm = "exit taken: real %s (%s), model %s" % (rcls, real.get("msg", "ok"), mcls)
        elif mcls == "v2:user":
            if real.get("degree") != int(w[2], 16): dm = "user polynomial degree: real %r model %s" % (real.get("degree"), w[2])
        elif mcls == "v2:poly":
            mod = parse_model_result(w[2])
            dm = differs_model(real, mod, real.get("struct", "")[-1:] == "f")
        if dm:
            cov["disagreements"] += 1
            ctx.violation("correspondence:v2-header:" + mcls, "2.x header reader, model and real parser disagree (%s): %s on %r" % (tag, dm, text[:80]), rep, no_input=True)
    cov["v2_header_histogram"] = {"exit_taken": hist_exit, "aimed_at": hist_tag, "accepted_type_words": hist_word}


def float_predicate_tie(ctx, samples, cov):
    """the property's predicate for floating-point numbers, evaluated by the EXTRACTED within_precb on the real
    parser's mpf values, against the exact Fraction predicate; and the model store at the real mpf precision"""
    if not samples: return
    lines = []
    for (bits, v, w, mprec, _) in samples:
        lines.append("WITHIN %d %d %d %d %d" % (bits, v.numerator, v.denominator, w.numerator, w.denominator))
        lines.append("STORE %d %d %d %d" % (max(mprec, bits), bits, w.numerator, w.denominator))
    out = ctx.run_model_lines("polfile", lines, workers=int(os.environ.get("VERIF_JOBS", "6")))
    agree = store_ok = 0
    for k, (bits, v, w, mprec, rep) in enumerate(samples):
        pw = out[2 * k].split(" ")[1] == "1"
        st = out[2 * k + 1].split(" ")
        if pw != within(v, w, bits):
            ctx.violation("correspondence:predicate-within", "extracted within_precb = %r but the exact predicate is %r (bits %d)" % (pw, within(v, w, bits), bits), rep, no_input=True)
        else: agree += 1
        sv = Fraction(int(st[1], 16), int(st[2], 16))
        if st[3] != "1" or not within(sv, w, bits) or abs(sv) > abs(w):
            ctx.violation("model:store-outside-precision", "mpf_store at %d bits is not within 2^-%d of the written value" % (max(mprec, bits), bits), rep, no_input=True)
        else: store_ok += 1
    cov["float_predicate"] = {"numbers": len(samples), "extracted_predicate_agrees": agree, "model_store_within": store_ok}


def replay_witnesses(ctx, h, cov):
    """the inputs on which the code used to store non-canonical / malformed results (now repaired), on the real code"""
    d = os.path.join(ctx.scratch, "wit"); os.makedirs(d, exist_ok=True)
    # C10_api_noncanonical_refuted: "0.5" -> 5/10
    p = os.path.join(d, "a.txt"); open(p, "w").write("1\n0\t0.5\tNULL\n1\t1\tNULL\n")
    # C10_chebyshev_noncanonical_refuted: 2/4
    c = os.path.join(d, "c.pol"); open(c, "w").write("Degree=1;\nChebyshev;\nReal;\nRational;\n2/4\n1\n")
    rc, blocks, partial, err = run_harness(ctx, h, ["A " + p, "F " + c, "R 0.0"])
    res = [parse_real_result(b["lines"]) for b in blocks]
    out = {}
    if len(res) == 3:
        out["api 0.5 stored"] = res[0]["Q"].get(("c", 0), [None])[0]
        out["chebyshev 2/4 stored"] = res[1]["Q"].get(("c", 0), [None])[0]
        out["equiv(0.0)"] = res[2]["eq"]
    cov["former_defect_witnesses_on_real_code"] = out


def shipped_differential(ctx, h, cov):
    """model parser vs real parser on the .pol files shipped with the sources"""
    root = os.path.join(ctx.snap("san"), "src", "tests")
    files = []
    for sub in ("unisolve", "secsolve"):
        dd = os.path.join(root, sub)
        if os.path.isdir(dd):
            files += [os.path.join(dd, f) for f in sorted(os.listdir(dd)) if f.endswith(".pol")]
    files = [f for f in files if os.path.getsize(f) <= ctx.pick(6000, 60000)]
    if not files: return
    rc, blocks, partial, err = run_harness(ctx, h, ["F " + f for f in files])
    if rc != 0 or len(blocks) != len(files):
        cov["shipped_files"] = "harness died on %s" % (partial["job"] if partial else "?")
        return
    mout = ctx.run_model("polfile", "".join("TEXT %s\n" % xh(open(f, "rb").read()) for f in files)).splitlines()
    n = 0
    for k, f in enumerate(files):
        real = parse_real_result(blocks[k]["lines"])
        mod = parse_model_result(mout[2 * k][6:])
        if not mod["ok"] and mod.get("why") == "USER": continue
        n += 1
        fp = real.get("struct", "")[-1:] == "f"
        dm = differs_model(real, mod, fp)
        if dm is None and real["ok"] and fp:
            # model's exact decimal value vs real's truncation: only as a correspondence sanity check
            pass
        if dm:
            cov["disagreements"] += 1
            ctx.violation("correspondence:shipped:" + os.path.basename(f), "model and real parser disagree on shipped file %s: %s" % (os.path.basename(f), dm),
                          {"mode": "F", "file": os.path.basename(f), "text_hex": open(f, "rb").read().hex()}, no_input=True)
    cov["shipped_files"] = n


def judge(ctx, cov, meta, text, mode, real, exp, mod, seen_classes):
    cls = cls_of(meta, mode)
    fp = meta["ct"] == "F"
    bad = compare(real, exp, fp, meta)
    rep = {"mode": mode, "text_hex": text.hex(), "meta": meta, "expected": exp_to_json(exp)}
    longest = max(len(l) for l in text.split(b"\n"))
    for sig, msg in bad[:3]:
        if mode == "S" and longest > 1000 and sig.startswith(("rejected", "value", "mp-value", "missing")):
            sig = "parse_string:line-longer-than-1022-bytes"
            msg = "mps_parse_string fails on a file with a %d byte line (MemoryFileStream::readline): %s" % (longest, msg)
        ctx.violation(sig, msg + "  [" + cls + "]", rep)
    dm = differs_model(real, mod, fp)
    if dm and not bad:
        cov["disagreements"] += 1
        ctx.violation("correspondence:" + cls, "model parser and real parser disagree although the property holds: " + dm, rep, no_input=True)
    elif dm:
        # the model is a model of the code as it is: it must reproduce the real parser's raw result even
        # where that violates the property (non-canonical Chebyshev rationals)
        cov["disagreements"] += 1
        cov.setdefault("model_vs_real_on_violations", []).append(dm[:120])
    seen_classes[cls] = seen_classes.get(cls, 0) + 1


def exp_to_json(exp):
    e = dict(exp)
    e["c"] = [[list(a), list(b)] for a, b in exp["c"]]
    e["b"] = [[list(a), list(b)] for a, b in exp["b"]]
    return e

def exp_from_json(e):
    e = dict(e)
    e["c"] = [(tuple(a), tuple(b)) for a, b in e["c"]]
    e["b"] = [(tuple(a), tuple(b)) for a, b in e["b"]]
    return e


def do_replay(ctx, h):
    obj = json.load(open(ctx.replay))
    cov = {"evaluations": 1, "distinct_nontrivial": 1, "rule": "replay of one stored case", "samples": [obj.get("signature")],
           "disagreements": 0, "api_strings": 0, "trusted_base": ["replay"]}
    mode = obj.get("mode")
    if mode == "setters":
        cov["disagreements"] = 0
        setter_cases(ctx, h, 0, cov, fixed=[(int(obj["degree"]), "replay", setter_ops_from_replay(obj["ops"]))])
    elif obj.get("what_for") == "int-range":
        c = {"site": obj["site"], "class": obj.get("class", "replay"), "written": int(obj["written"]), "field": obj["field"],
             "text": bytes.fromhex(obj["text_hex"]).decode("latin-1"), "n": obj["n"], "mode": mode}
        cov["disagreements"] = 0
        int_range_cases(ctx, h, 0, cov, fixed=[c])
    elif mode in ("F", "T", "S") and "text_hex" in obj:
        p = os.path.join(ctx.scratch, "replay.pol"); open(p, "wb").write(bytes.fromhex(obj["text_hex"]))
        rc, blocks, partial, err = run_harness(ctx, h, ["%s %s" % (mode, p)])
        if rc != 0 or not blocks:
            ctx.violation(obj.get("signature", "replay-crash"), "harness died on the replayed file: " + err[-300:], obj)
        elif "expected" in obj:
            real = parse_real_result(blocks[0]["lines"]); exp = exp_from_json(obj["expected"]); meta = obj["meta"]
            for sig, msg in compare(real, exp, meta["ct"] == "F", meta)[:3]:
                ctx.violation(sig, msg, obj)
    elif mode == "inline-ers":
        rc, blocks, partial, err = run_harness(ctx, h, ["B " + obj["string"]])
        if rc != 0 or not blocks:
            ctx.violation(obj.get("signature", "crash:build_equivalent_rational_string:%s" % obj["string"]),
                          "build_equivalent_rational_string(%r) crashes: %s" % (obj["string"], err[:200].replace("\n", " | ")), obj)
    elif mode == "api-string":
        p = os.path.join(ctx.scratch, "replay.txt"); open(p, "w", encoding="latin-1").write("0\n0\t%s\tNULL\n" % obj["string"])
        rc, blocks, partial, err = run_harness(ctx, h, ["A " + p])
        real = parse_real_result(blocks[0]["lines"]) if blocks else {"Q": {}}
        got = real["Q"].get(("c", 0), [None])[0]
        want = Fraction(obj["expected"])
        if got is None or got[1] == 0 or frac(got) != want:
            ctx.violation("api-value:%s" % obj["string"], "stored %r, denotes %s" % (got, want), obj)
        elif Fraction(got[0], got[1]).denominator != got[1]:
            ctx.violation("noncanonical:api/set_coefficient_s", "non-canonical mpq %r stored for %r" % (got, obj["string"]), obj)
    return ctx.finish("proof", cov, [])


def dedupe_violations(ctx):
    """report each signature once per run (the first input that shows it)"""
    orig, seen = ctx.violation, set()
    def v(sig, what, rep, no_input=False):
        if sig in seen: return False
        seen.add(sig)
        return orig(sig, what, rep, no_input=no_input)
    ctx.violation = v


def load_own_known(ctx):
    """known/C10.json is this property's fragment of known_findings.json; entries not merged yet are honoured too"""
    try:
        own = json.load(open(os.path.join(vf.VERIF, "known", "C10.json"))).get("findings", [])
    except Exception:
        return
    have = {k.get("signature") for k in ctx.known}
    for f in own:
        if f.get("status", "open") == "open" and f.get("signature") not in have:
            ctx.known.append(f)


def run(ctx):
    load_own_known(ctx)
    dedupe_violations(ctx)
    ctx.prove()
    h = ctx.compile_harness(["c10_parse.c"], "c10_parse", mode="san")
    if ctx.replay:
        return do_replay(ctx, h)
    rng = ctx.rng
    cov = {"evaluations": 0, "disagreements": 0, "api_strings": 0}
    n_cases = int(os.environ.get("VERIF_C10_CASES", ctx.pick(3000, 30000)))     # the variable is for development runs only
    hist = {"kind": {}, "syntax": {}, "ctype": {}, "density": {}, "degree": {}, "precision": {}, "sparse_order": {},
            "option_order": {}, "layout": {}, "number_forms": {}, "entry_point": {}}
    def bump(h_, k): hist[h_][k] = hist[h_].get(k, 0) + 1
    seen_classes, distinct, samples = {}, set(), []
    from concurrent.futures import ThreadPoolExecutor
    all_cases = [gen_case(rng, not ctx.quick()) + (rng.random(),) for _ in range(n_cases)]
    chunks = [all_cases[i:i + 200] for i in range(0, n_cases, 200)]

    def work(ci):
        cases = chunks[ci]
        sub = os.path.join(ctx.scratch, "chunk_%d" % ci); os.makedirs(sub, exist_ok=True)
        mout = ctx.run_model("polfile", "\n".join("\n".join(L) for L, _, _ in cases) + "\n").splitlines()
        if len(mout) != 5 * len(cases):
            raise vf.InfraError("polfile driver: expected %d lines, got %d: %s" % (5 * len(cases), len(mout), mout[:3]))
        jobs, plan = [], []
        for k, (L, meta, r) in enumerate(cases):
            text = unx(mout[5 * k][7:])
            exp = parse_model_result(mout[5 * k + 1][7:])
            mod = parse_model_result(mout[5 * k + 2][6:])
            mods = parse_model_result(mout[5 * k + 3][9:])
            meta["outcome"] = mout[5 * k + 4][8:]
            p = os.path.join(sub, "c_%d.pol" % k)
            with open(p, "wb") as f: f.write(text)
            mode = "F" if r < 0.6 else ("T" if r < 0.75 else "S")
            if mode == "S" and not mods["ok"] and mod["ok"]:
                mode = "F"          # leading blank lines / indented comments are only skipped by mps_parse_stream
            jobs.append("%s %s" % (mode, p)); plan.append((meta, text, mode, exp, mods if mode == "S" else mod, mod))
        return plan, run_harness_resume(ctx, h, jobs)

    ctx.log("generated %d cases" % n_cases)
    with ThreadPoolExecutor(max_workers=int(os.environ.get("VERIF_JOBS", "12"))) as ex:
        results = list(ex.map(work, range(len(chunks))))
    ctx.log("model + real parser done")
    fp_samples = []
    hist["v2_type_word"] = {}
    for plan, blocks in results:
        for (meta, text, mode, exp, mod, mod_stream) in plan:
            # the statement-by-statement 2.x reader: rendered 2.x files leave it with the polynomial, 3.x files never
            # enter it, and it refines to the parser used above (C10_parse_render_legacy, C10_parse_outcome_refines)
            want = "v2:poly 1" if meta["legacy"] else "v3 1"
            if meta["outcome"] != want:
                ctx.violation("model-outcome:" + cls_of(meta, "model"), "extracted parse_outcome (render d) is %r, expected %r" % (meta["outcome"], want),
                              {"mode": "model", "text_hex": text.hex(), "meta": meta}, no_input=True)
            # the rendering theorem instantiated: model parse of the rendering = denotation
            # (Chebyshev rationals excepted: the model, like the code, does not canonicalise them)
            if mod_stream != exp and not (meta["kind"] == "C" and meta["ct"] == "Q"):
                ctx.violation("model-roundtrip:" + cls_of(meta, "model"), "extracted parse (render d) differs from denote d",
                              {"mode": "model", "text_hex": text.hex(), "meta": meta}, no_input=True)
        for blk, (meta, text, mode, exp, mod, _) in zip(blocks, plan):
            cov["evaluations"] += 1
            if "crash" in blk:
                longest = max(len(l) for l in text.split(b"\n"))
                sig = "parse_string:line-longer-than-1022-bytes" if (mode == "S" and longest > 1000) else site(meta, "crash") + ("/parse_string" if mode == "S" else "")
                ctx.violation(sig, "the real parser crashed on a well-formed file (no parsed object) [%s, longest line %d]: %s" % (cls_of(meta, mode), longest, blk["crash"][:300].replace("\n", " | ")),
                              {"mode": mode, "text_hex": text.hex(), "meta": meta, "stderr": blk["crash"]})
                continue
            real = parse_real_result(blk["lines"])
            judge(ctx, cov, meta, text, mode, real, exp, mod, seen_classes)
            if meta["legacy"]:
                tw = ("s" if meta["sparse"] else "d") + ("r" if meta["real"] else "c") + {"I": "i", "Q": "q", "F": "f"}[meta["ct"]]
                bump("v2_type_word", tw)
            if meta["ct"] == "F" and real["ok"] and len(fp_samples) < ctx.pick(3000, 30000):
                bits = exp["prec"] if exp["prec"] > 0 else 64
                allc = [("c" if exp["kind"] != "secular" else "a", i, c) for i, c in enumerate(exp["c"])] + [("b", i, c) for i, c in enumerate(exp["b"])]
                for (rtag, i, (re_, im_)) in rng.sample(allc, min(2, len(allc))):
                    m = real["M"].get((rtag, i))
                    if m is None: continue
                    for got, want_, mp in ((m[0], re_, m[2]), (m[1], im_, m[3])):
                        fp_samples.append((bits, mpf_val(got), frac(want_), mp,
                                           {"mode": mode, "text_hex": text.hex(), "meta": meta, "coefficient": "%s[%d]" % (rtag, i)}))
            bump("kind", KINDS[meta["kind"]]); bump("syntax", "2.x" if meta["legacy"] else "3.x"); bump("ctype", meta["ct"])
            bump("density", "sparse" if meta["sparse"] else "dense"); bump("precision", str(meta["prec"]))
            bump("degree", "1-8" if meta["n"] <= 8 else "9-40" if meta["n"] <= 40 else "41-200")
            bump("sparse_order", meta["order"]); bump("option_order", meta["perm"]); bump("layout", meta["layout"]); bump("entry_point", mode)
            for f_ in meta["forms"]: bump("number_forms", f_)
            distinct.add(hash(text))
            if len(samples) < 4 and len(text) < 400:
                samples.append({"file": text.decode("latin-1"), "class": cls_of(meta, mode)})
    ctx.log("judged %d files" % cov["evaluations"])
    float_predicate_tie(ctx, fp_samples, cov)
    ctx.log("float predicate tie done (%d numbers)" % len(fp_samples))
    v2_header_cases(ctx, h, ctx.pick(1200, 12000), cov)
    ctx.log("2.x header cases done")
    int_range_cases(ctx, h, ctx.pick(400, 4000), cov)
    ctx.log("integer conversion cases done")
    api_cases(ctx, h, ctx.pick(300, 3000), cov)
    ctx.log("api done")
    setter_cases(ctx, h, ctx.pick(500, 5000), cov)
    ctx.log("setter sequences done")
    replay_witnesses(ctx, h, cov)
    shipped_differential(ctx, h, cov)
    ctx.log("shipped files done")
    ctx.proof_violation_if_broken(search=None)
    cov.update({
        "distinct_nontrivial": len(distinct),
        "rule": "each case = a random description (kind, syntax, degree 1..200, real/complex, Integer/Rational/FloatingPoint, dense/sparse, "
                "optional Precision) rendered by the extracted Coq render under a random style/permutation; distinct = distinct file texts "
                "(all have degree >= 1 and at least two coefficient tokens); plus string-API polynomials and shipped files",
        "samples": samples,
        "histogram": hist,
        "classes_seen": len(seen_classes),
        "disagreements_checked": cov["disagreements"],
        "trusted_base": [
            "Coq 8.16.1 kernel; no axioms beyond those printed by Print Assumptions (see axioms_used)",
            "extraction: ExtrOcamlBasic + ExtrOcamlNativeString only; hand-written driver ocaml/polfile_driver.ml (hex I/O, record assembly)",
            "harness/c10_parse.c prints mpq/mpf fields exactly (mpz_out_str, mpf_get_str base 16)",
            "modelled, not verified: GMP mpz/mpq/mpf_set_str (by mpq_str_value/decimal_value), getline/tokenisation at the level of lines and "
            "white-space separated tokens; atoi / sscanf %d / %ld and the double product with LOG2_10 as glibc and x86-64 (cvttsd2si) "
            "perform them (CIntModel.v; checked on every run through the real parsers, out-of-range numbers included)",
            "the generator's Fraction oracle for API strings (independent of the Coq model)",
            "2.x reader: sscanf %d/%ld/%3s modelled by scan_int / scan_long / the first three characters; exits identified on the real side by the error message",
        ],
    })
    return ctx.finish("proof", cov, [
        "mpf_set_str/mpq_set_str behave as decimal_value/mpq_str_value on the rendered tokens (checked by the tie on every case)",
        "the double product with LOG2_10 is IEEE round-to-nearest-even on 53 bits and out-of-range double->long gives LONG_MIN (x86-64; PREC compared on every case)",
    ])
