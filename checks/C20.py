"""C20 -- Hessenberg determinants (src/libmps/matrix/hessenberg-determinant.c).

Proof side (coq/Props/Properties_C20.v): the recurrence coded in the three variants equals
det (H - s.I) for every upper Hessenberg H over any commutative ring; mantissa * 2^exponent of
the double variant is invariant under the rescaling; a-priori rounding bound under the standard
model; the DPE variant as coded (vec[n]) is refuted.

Correspondence side (this file): the real mps_{f,d,m}hessenberg_{,shifted_}determinant are run
(ASan+UBSan build) on generated upper Hessenberg matrices; inputs and results are exchanged
exactly (bit patterns / hex digits).  The exact determinant comes from the extracted, verified
recurrence over Gaussian integers (bin/hess); the property's predicate is then evaluated in exact
rational arithmetic:

    |computed - exact|  <=  gamma(C*n, u) * B        gamma(k,u) = k*u / (1 - k*u)
    B = the same recurrence on (upper bounds of) the moduli, every minus replaced by plus
    f: u = 2^-53, C = 5     d: u = 2^-52, C = 5     m: u = 2^(1-wp), C = 16
    (C = 5 for f and d is DERIVED in Coq: C20_fhess_apriori_gamma, coq/Hess/HessStd.v, from the standard
     model |rnd t - t| <= u |t| and the 4-multiplication complex product; C = 16 for m is
     C20_hess_apriori_pow with the assumed constant em <= gamma_14 of mpc_mul's 3-multiplication product)
    m additionally: |computed - exact| <= returned error bound; the m variants are called with matrix,
    shift and output at equal AND at different precisions (matrix below / above the output, shift different
    again); u is taken from the OUTPUT precision
    f: the value is mantissa * 2^exponent of the returned pair.
"""
import json, os, re, math, struct
from fractions import Fraction
from concurrent.futures import ThreadPoolExecutor
import vf

K_MOD = 12                      # moduli are rounded up at 2^-K_MOD relative to the integer grid
C_F, C_D, C_M = 5, 5, 16
U_F, U_D = Fraction(1, 2 ** 53), Fraction(1, 2 ** 52)
WPS = [64, 100, 128, 192, 256, 512, 1024]

SIG_ASAN_D = "asan:heap-buffer-overflow:mps_dhessenberg_shifted_determinant"
SIG_M_N1 = "errbound:m:n=1:returned-bound-0-but-output-rounded-to-wp"
SIG_VAL_D = "value:mps_dhessenberg_shifted_determinant:equals-as-coded-model(shift-not-subtracted-from-H[n-1,n-1])"


# ------------------------------------------------------------------ exact numbers
def d2frac(x):
    return Fraction(x)          # exact for finite doubles


def dyadic_exp(x):
    """smallest e such that x * 2^-e is an integer (x a finite double or a dyadic Fraction), 0 for x == 0"""
    if x == 0:
        return 0
    if isinstance(x, Fraction):
        num, den = x.numerator, x.denominator
        if den & (den - 1):
            raise ValueError("not a dyadic rational")
        if den > 1:
            return -(den.bit_length() - 1)
        return (num & -num).bit_length() - 1
    m, e = math.frexp(x)
    mi = int(m * (1 << 53))
    e -= 53
    while mi % 2 == 0:
        mi //= 2; e += 1
    return e


def hx(v):
    return ("-" if v < 0 else "") + "%x" % abs(v)


def unhx(s):
    return -int(s[1:], 16) if s.startswith("-") else int(s, 16)


def mpf_digits_to_frac(digs, exp):
    if digs == "0":
        return Fraction(0)
    neg = digs.startswith("-")
    if neg: digs = digs[1:]
    v = Fraction(int(digs, 16)) * Fraction(16) ** (exp - len(digs))
    return -v if neg else v


def pow2(e):
    return Fraction(2) ** e


# ------------------------------------------------------------------ generators
def rnd_double(rng, bits, emin, emax, allow_zero=0.0):
    if allow_zero and rng.random() < allow_zero:
        return 0.0
    m = rng.getrandbits(bits) | (1 << (bits - 1))
    e = rng.randint(emin, emax)
    v = math.ldexp(float(m), e - bits)       # in [2^(e-1), 2^e)
    return -v if rng.random() < 0.5 else v


def prec_kind(spec):
    p = [int(x) for x in str(spec).split(":")]
    if len(p) == 1 or (p[0] == p[1] == p[2]): return "equal"
    return ("matrix<output" if p[0] < p[2] else "matrix>output" if p[0] > p[2] else "matrix=output") + \
           (",shift-differs" if p[1] not in (p[0], p[2]) else "")


def gen_matrix(rng, n, bits, emin, emax, cplx=True, zero_sub=0.0, small_int=None):
    H = [(0.0, 0.0)] * (n * n)
    for i in range(n):
        for j in range(max(0, i - 1), n):
            if small_int is not None:
                re = float(rng.randint(-small_int, small_int))
                im = float(rng.randint(-small_int, small_int)) if cplx else 0.0
            else:
                re = rnd_double(rng, bits, emin, emax, 0.03)
                im = rnd_double(rng, bits, emin, emax, 0.03) if cplx else 0.0
            if j == i - 1 and rng.random() < zero_sub:
                re, im = 0.0, 0.0
            H[i * n + j] = (re, im)
    return H


def gen_shift(rng, kind, bits, emin, emax, small_int=None):
    if kind == "zero":
        return (0.0, 0.0)
    if small_int is not None:
        re = float(rng.randint(-small_int, small_int) or 1)
        im = float(rng.randint(-small_int, small_int)) if kind == "complex" else 0.0
        return (re, im)
    re = rnd_double(rng, bits, emin, emax)
    im = rnd_double(rng, bits, emin, emax) if kind == "complex" else 0.0
    return (re, im)


def cmul(a, b): return (a[0] * b[0] - a[1] * b[1], a[0] * b[1] + a[1] * b[0])
def csub(a, b): return (a[0] - b[0], a[1] - b[1])


def py_rec(H, n, s):
    """the recurrence in exact rationals (generator side only: used to build cancelling inputs)"""
    vec = [H[i * n + n - 1] for i in range(n)]
    vec[n - 1] = csub(vec[n - 1], s)
    for l in range(n - 1, 0, -1):
        new = []
        for i in range(l):
            a = csub(H[i * n + i], s) if i == l - 1 else H[i * n + l - 1]
            new.append(csub(cmul(a, vec[l]), cmul(vec[i], H[l * n + l - 1])))
        vec = new
    return vec[0]


def gen_cancel(rng, n):
    """upper Hessenberg matrix whose determinant nearly cancels: det is affine in H[0,n-1]..., we
    solve for the entry x = H[0,0] ... simplest robust choice: x = H[n-1,n-1]."""
    H = gen_matrix(rng, n, 53, -2, 2, cplx=True)
    Hq = [(Fraction(a), Fraction(b)) for a, b in H]
    z = (Fraction(0), Fraction(0))
    k = n * n - 1
    Hq[k] = (Fraction(0), Fraction(0)); beta = py_rec(Hq, n, z)
    Hq[k] = (Fraction(1), Fraction(0)); d1 = py_rec(Hq, n, z)
    alpha = csub(d1, beta)
    den = alpha[0] ** 2 + alpha[1] ** 2
    if den == 0:
        return H
    # x = -beta / alpha
    xr = -(beta[0] * alpha[0] + beta[1] * alpha[1]) / den
    xi = -(beta[1] * alpha[0] - beta[0] * alpha[1]) / den
    H[k] = (float(xr), float(xi))
    return H


def make_cases(ctx):
    rng = ctx.rng
    q = ctx.quick()
    cases = []

    def add(cls, n, H, s, wps):
        cases.append({"id": "c%d" % len(cases), "cls": cls, "n": n, "H": H, "s": s, "wps": wps})

    def mixed():
        # matrix : shift : output at different precisions; half of them with the matrix below the output
        lo, hi = sorted(rng.sample(WPS, 2))
        sh = rng.choice(WPS)
        return "%d:%d:%d" % ((lo, sh, hi) if rng.random() < 0.6 else (hi, sh, lo))

    def wp_pick(k):
        return [str(w) for w in sorted(rng.sample(WPS, k))] + [mixed()]

    # the witnesses of the Coq file: dhess_index_refuted (n = 1, H = [1], s = 1) and the 3 x 3 example
    add("witness", 1, [(1.0, 0.0)], (1.0, 0.0), ["64", "64:128:256"])
    add("witness", 3, [(float(v), 0.0) for v in (2, 3, 5, 7, 11, 13, 0, 17, 19)], (1.0, 0.0), ["64", "128", "64:100:1024", "512:64:128"])
    shifts = ["zero", "real", "complex", "complex"]
    # full 53-bit entries, small orders
    for n in list(range(1, ctx.pick(17, 25))) * ctx.pick(3, 16):
        sk = rng.choice(shifts)
        cplx = rng.random() < 0.75
        H = gen_matrix(rng, n, 53, -2, 3, cplx=cplx, zero_sub=rng.choice([0.0, 0.0, 0.3]))
        add("full53", n, H, gen_shift(rng, sk if cplx or sk != "complex" else "real", 53, -2, 3), wp_pick(2))
    # nearly cancelling determinants
    for n in [2, 2, 3, 4, 5, 6, 8] * ctx.pick(3, 20):
        add("cancel", n, gen_cancel(rng, n), (0.0, 0.0), wp_pick(2))
    # 20-bit entries, medium orders
    for n in [rng.randint(17, ctx.pick(56, 90)) for _ in range(ctx.pick(16, 96))]:
        sk = rng.choice(shifts)
        H = gen_matrix(rng, n, 20, -1, 2, cplx=True, zero_sub=rng.choice([0.0, 0.1]))
        add("mid20", n, H, gen_shift(rng, sk, 20, -1, 2), wp_pick(1))
    # small Gaussian integers, large orders (crossing the rescaling points l = 51, 101, 151)
    big = [51, 52, 53, 64, 101, 102, 103, 151, 152, 200] if q else [51, 52, 53, 60, 99, 101, 102, 103, 120, 151, 152, 153, 180, 199, 200] * 4
    for n in big:
        sk = rng.choice(shifts)
        cplx = rng.random() < 0.7
        H = gen_matrix(rng, n, 0, 0, 0, cplx=cplx, zero_sub=rng.choice([0.0, 0.05, 0.2]), small_int=3)
        add("int", n, H, gen_shift(rng, sk if cplx or sk != "complex" else "real", 0, 0, 0, small_int=3),
            wp_pick(1) if n <= 103 else [rng.choice(["64", "128", "64:128:192", "192:64:128"])])
    # m variants only: entries that are genuinely wider than the output precision (exact dyadics with up to 256
    # bits, held in 512-bit mpf inputs), so that the copy into the wp-bit working matrix and H[i,i] - shift round
    def wide_num(bits):
        if rng.random() < 0.05: return Fraction(0)
        m = rng.getrandbits(bits) | (1 << (bits - 1)) | 1
        return Fraction(m if rng.random() < 0.5 else -m) * pow2(rng.randint(-2, 3) - bits)
    for n in [1, 1, 2, 3, 4, 6, 9, 12] * ctx.pick(1, 4):
        bits = rng.choice([90, 160, 256])
        H = [(Fraction(0), Fraction(0))] * (n * n)
        for i in range(n):
            for j in range(max(0, i - 1), n):
                H[i * n + j] = (wide_num(bits), wide_num(bits))
        sk = rng.choice(["zero", "wide", "double"])
        s = (Fraction(0), Fraction(0)) if sk == "zero" else (wide_num(bits), wide_num(bits)) if sk == "wide" \
            else (Fraction(rnd_double(rng, 53, -2, 3)), Fraction(rnd_double(rng, 53, -2, 3)))
        wo = rng.choice([64, 128])
        add("wide", n, H, s, ["512:512:%d" % wo, "512:512:%d" % rng.choice([64, 192, 256])])
    return cases


# ------------------------------------------------------------------ model side
def model_line(case, mode):
    n, H, s = case["n"], case["H"], case["s"]
    vals = [s[0], s[1]] + [c for z in H for c in z]
    emin = min([dyadic_exp(v) for v in vals] + [0])
    sc = -emin
    ints = [int(Fraction(v) * pow2(sc)) for v in vals]
    case["sc"] = sc
    case["ints"] = ints
    return "%s %d %d %s" % (mode, n, K_MOD, " ".join(hx(v) for v in ints))


def run_model_parallel(ctx, cases, modes):
    """modes: dict id -> mode string; fills case['det'], case['dcoded'], case['B'] (Fractions)"""
    todo = [c for c in cases if modes.get(c["id"])]
    # balance by estimated cost n^3 * bits^2
    def cost(c):
        return c["n"] ** 3 * (c["sc"] + 8) ** 2 if "sc" in c else c["n"] ** 3
    lines = {c["id"]: model_line(c, modes[c["id"]]) for c in todo}
    todo.sort(key=cost, reverse=True)
    nb = min(16, max(1, len(todo)))
    buckets = [[] for _ in range(nb)]
    loads = [0] * nb
    for c in todo:
        k = loads.index(min(loads)); buckets[k].append(c); loads[k] += cost(c)

    def work(b):
        if not b: return []
        out = ctx.run_model("hess", "\n".join(lines[c["id"]] for c in b) + "\n")
        rows = [r for r in out.split("\n") if r.strip()]
        if len(rows) != len(b):
            raise vf.InfraError("hess model: %d results for %d cases" % (len(rows), len(b)))
        return list(zip(b, rows))
    with ThreadPoolExecutor(max_workers=nb) as ex:
        for res in ex.map(work, buckets):
            for c, row in res:
                f = row.split()
                n, sc = c["n"], c["sc"]
                k = 0
                for ch in modes[c["id"]]:
                    if ch == "D":
                        c["det"] = (Fraction(unhx(f[k]), 1) / pow2(sc * n), Fraction(unhx(f[k + 1]), 1) / pow2(sc * n)); k += 2
                    elif ch == "C":
                        c["dcoded"] = (Fraction(unhx(f[k]), 1) / pow2(sc * n), Fraction(unhx(f[k + 1]), 1) / pow2(sc * n)); k += 2
                    elif ch == "B":
                        c["B"] = Fraction(unhx(f[k]), 1) / pow2((sc + K_MOD) * n); k += 1


# ------------------------------------------------------------------ implementation side
def tok(v):
    """a number on the harness line: bit pattern of a double, or x<hex>@<e> for a wide dyadic Fraction"""
    if isinstance(v, Fraction):
        e = dyadic_exp(v)
        m = int(v / pow2(e))
        return "x%s%x@%d" % ("-" if m < 0 else "", abs(m), e)
    return vf.hexd(v)


def untok(s):
    if s.startswith("x"):
        m, e = s[1:].split("@")
        return Fraction(int(m, 16)) * pow2(int(e))
    return vf.dhex(s)


def is_wide(case):
    return any(isinstance(v, Fraction) for z in [case["s"]] + list(case["H"]) for v in z)


def harness_line(case):
    n, H, s = case["n"], case["H"], case["s"]
    wps = ",".join(str(w) for w in case["wps"]) if case["wps"] else "-"
    return "%s %d %s %s %s %s" % (case["id"], n, wps, tok(s[0]), tok(s[1]),
                                  " ".join(tok(a) + " " + tok(b) for a, b in H))


def run_harness(ctx, h, cases, variants, pad):
    text = "\n".join(harness_line(c) for c in cases) + "\n"
    rc, out, err = vf.sh([h, variants, str(pad)], input=text, timeout=ctx.pick(600, 2400), env=ctx.san_env())
    res = {}
    for row in out.split("\n"):
        f = row.split()
        if not f: continue
        if f[0] == "F":
            res.setdefault(f[1], {})["f"] = (vf.dhex(f[2]), vf.dhex(f[3]), int(f[4]))
        elif f[0] == "D":
            res.setdefault(f[1], {})["d"] = (vf.dhex(f[2]), int(f[3]), vf.dhex(f[4]), int(f[5]))
        elif f[0] == "M":
            res.setdefault(f[1], {}).setdefault("m", []).append(
                (int(f[2].split(":")[-1]), mpf_digits_to_frac(f[4], int(f[5])), mpf_digits_to_frac(f[6], int(f[7])),
                 vf.dhex(f[8]), int(f[9]), int(f[3]), f[2]))
        elif f[0] == "I":
            res.setdefault(f[1], {}).setdefault("seen", []).append(
                [mpf_digits_to_frac(f[k], int(f[k + 1])) for k in range(3, len(f), 2)])
        elif f[0] == "E":
            res.setdefault(f[1], {})["done"] = True
    return rc, res, err


def san_signature(err):
    """(kind, first libmps frame) of a sanitizer report"""
    kind = None
    m = re.search(r"ERROR: AddressSanitizer: ([A-Za-z0-9_-]+)", err)
    if m: kind = "asan:" + m.group(1)
    else:
        m = re.search(r"runtime error: ([^\n]*)", err)
        if m: kind = "ubsan:" + re.sub(r"[^A-Za-z0-9]+", "-", m.group(1))[:60]
    frames = [m.group(1) for m in re.finditer(r"#\d+ 0x[0-9a-f]+ in ([A-Za-z0-9_]+)", err)]
    fn = next((f for f in frames if f.startswith("mps_")), None)
    if fn is None:
        fn = next((f for f in frames if f.startswith(("mpc_", "rdpe_", "cdpe_", "cplx_"))), None)
    return kind, fn


def sqrt_ratio(fr):
    """sqrt of a non-negative Fraction as a float, saturating"""
    if fr <= 0: return 0.0
    n, d = fr.numerator, fr.denominator
    sh = n.bit_length() - d.bit_length()
    if sh > 1000: return float("inf")
    if sh < -1000: return 0.0
    return math.sqrt(n / d)


K_NRM = 32                      # mantissa bits kept by the extracted modulus bound dy_nrm (relative excess <= 2^-30)
ERRVEC_TOL = Fraction(1, 10 ** 6)


def run_errvec_model(ctx, todo):
    """todo: list of (case, wp).  Runs the EXTRACTED model of the function as it is at HEAD
    (coq/Hess/HessModelM.v mhess_head, instantiated in HessDyadic.v: exact Gaussian dyadic values, bounds rounded
    up at 2^-63 per operation) and stores case['errmodel'][wp] = (error bound, exact determinant) as Fractions."""
    if not todo:
        return
    def cost(t):
        c = t[0]
        return c["n"] ** 3 * (c["sc"] + 8) ** 2
    todo = sorted(todo, key=cost, reverse=True)
    nb = min(8, len(todo))
    buckets = [[] for _ in range(nb)]
    loads = [0] * nb
    for t in todo:
        k = loads.index(min(loads)); buckets[k].append(t); loads[k] += cost(t)

    def line(c, wp):
        return "E %d %d %d %d %s" % (c["n"], K_NRM, c["sc"], wp, " ".join(hx(v) for v in c["ints"]))

    def work(b):
        if not b: return []
        out = ctx.run_model("hess", "\n".join(line(c, wp) for c, wp in b) + "\n")
        rows = [r for r in out.split("\n") if r.strip()]
        if len(rows) != len(b):
            raise vf.InfraError("hess model (E): %d results for %d cases" % (len(rows), len(b)))
        return list(zip(b, rows))
    with ThreadPoolExecutor(max_workers=nb) as ex:
        for res in ex.map(work, buckets):
            for (c, wp), row in res:
                f = row.split()
                de = int(f[2])
                det = (Fraction(unhx(f[0])) * pow2(de), Fraction(unhx(f[1])) * pow2(de))
                c.setdefault("errmodel", {})[wp] = (Fraction(unhx(f[3])) * pow2(int(f[4])), det)


def gamma(k, u):
    ku = k * u
    if ku >= 1:
        return None
    return ku / (1 - ku)


class Judge:
    def __init__(self, ctx):
        self.ctx = ctx
        self.evals = 0
        self.hist = {}
        self.maxratio = {"f": 0.0, "d": 0.0, "m": 0.0, "m_err": 0.0}
        self.nontrivial = set()
        self.maxratio_cls = {}
        self.errvec_compared = 0
        self.f_range_checked = 0
        self.errvec_smaller = []
        self.errvec_larger = []
        self.errvec_ratio = (float("inf"), 0.0)
        self.reported = set()
        self.samples = []

    def count(self, key):
        self.hist[key] = self.hist.get(key, 0) + 1

    def replay_obj(self, case, variant, extra):
        o = {"case": {"id": case["id"], "cls": case["cls"], "n": case["n"], "wps": case["wps"],
                      "s": [tok(case["s"][0]), tok(case["s"][1])],
                      "H": [[tok(a), tok(b)] for a, b in case["H"]]},
             "variant": variant}
        o.update(extra)
        return o

    def err2(self, val, exact):
        return (val[0] - exact[0]) ** 2 + (val[1] - exact[1]) ** 2

    def check_value(self, case, variant, val, C, u, wp=None, errbound=None, spec=None):
        """returns True when the predicate holds"""
        ctx = self.ctx
        n = case["n"]
        self.evals += 1
        self.count("%s:%s" % (variant, case["cls"]))
        self.count("n<=%d" % (1 if n <= 1 else 4 if n <= 4 else 16 if n <= 16 else 64 if n <= 64 else 200))
        self.count("shift:" + ("zero" if case["s"] == (0.0, 0.0) else "real" if case["s"][1] == 0.0 else "complex"))
        g = gamma(C * n, u)
        B = case["B"]
        e2 = self.err2(val, case["det"])
        tag = variant + ("@%s" % (spec or wp) if wp else "")
        ok = True
        bound = g * B
        if e2 > bound * bound:
            ok = False
            # pre-fix DPE variant: does the value agree with the as-coded model instead?
            if variant == "d" and "dcoded" in case and self.err2(val, case["dcoded"]) <= bound * bound and case["s"] != (0.0, 0.0):
                self.count("d:value-equals-as-coded-model")
                if SIG_VAL_D not in self.reported:
                  self.reported.add(SIG_VAL_D)
                  ctx.violation(SIG_VAL_D,
                              "mps_dhessenberg_shifted_determinant returns det with the shift missing on the last diagonal entry (vec[n] instead of vec[n-1])",
                              self.replay_obj(case, variant, {"computed": [str(val[0]), str(val[1])],
                                                              "exact": [str(case["det"][0]), str(case["det"][1])]}))
            else:
                rel = sqrt_ratio(e2 / (bound * bound)) if bound > 0 else float("inf")
                ctx.violation("bound:%s:%s:n=%d:%s" % (tag, case["cls"], n, case["id"]),
                              "%s Hessenberg determinant: |computed - exact| exceeds gamma(%d n, u) * B by a factor %.3g (order %d, class %s)"
                              % (tag, C, rel, n, case["cls"]),
                              self.replay_obj(case, variant, {"computed": [str(val[0]), str(val[1])],
                                                              "exact": [str(case["det"][0]), str(case["det"][1])],
                                                              "bound": str(bound), "wp": wp}))
        if bound > 0:
            r = sqrt_ratio(e2 / (bound * bound))
            key = "m" if variant == "m" else variant
            if ok and r > self.maxratio[key]: self.maxratio[key] = r
            kc = "%s:%s" % (variant, case["cls"])
            if ok and r > self.maxratio_cls.get(kc, 0.0): self.maxratio_cls[kc] = r
            if e2 > 0: self.nontrivial.add((case["id"], tag))
        if errbound is not None:
            if e2 > errbound * errbound and n == 1 and errbound == 0:
                # order 1: the function copies H[0,0] (- shift) into a wp-bit variable and returns error = verrors[0] = 0
                ok = False
                self.count("m:n=1-bound-0-output-rounded")
                if SIG_M_N1 not in self.reported:
                    self.reported.add(SIG_M_N1)
                    ctx.violation(SIG_M_N1,
                                  "mps_mhessenberg_shifted_determinant, order 1: H[0,0] - shift is rounded to the output precision "
                                  "but the returned error bound is 0 (precisions matrix:shift:output %s)" % (spec or wp),
                                  self.replay_obj(case, variant, {"computed": [str(val[0]), str(val[1])],
                                                                  "exact": [str(case["det"][0]), str(case["det"][1])],
                                                                  "errbound": "0", "wp": wp}))
            elif e2 > errbound * errbound:
                ok = False
                rel = sqrt_ratio(e2 / (errbound * errbound)) if errbound > 0 else float("inf")
                ctx.violation("errbound:m@%s:%s:n=%d:%s" % (spec or wp, case["cls"], n, case["id"]),
                              "mps_mhessenberg determinant: |computed - exact| exceeds the returned error bound by a factor %.3g (order %d, precisions matrix:shift:output %s)" % (rel, n, spec or wp),
                              self.replay_obj(case, variant, {"computed": [str(val[0]), str(val[1])],
                                                              "exact": [str(case["det"][0]), str(case["det"][1])],
                                                              "errbound": str(errbound), "wp": wp}))
            elif errbound > 0:
                r = sqrt_ratio(e2 / (errbound * errbound))
                if r > self.maxratio["m_err"]: self.maxratio["m_err"] = r
        return ok

    def judge_case(self, case, res, variants):
        ctx = self.ctx
        r = res.get(case["id"], {})
        if "f" in variants and "f" in r:
            re_, im_, ex = r["f"]
            if not (math.isfinite(re_) and math.isfinite(im_)):
                ctx.violation("nonfinite:f:%s:n=%d:%s" % (case["cls"], case["n"], case["id"]),
                              "mps_fhessenberg determinant returned a non-finite mantissa", self.replay_obj(case, "f", {}))
            else:
                val = (Fraction(re_) * pow2(ex), Fraction(im_) * pow2(ex))
                okv = self.check_value(case, "f", val, C_F, U_F)
                # range of the returned pair (C20_fhess_mantissa, C20_fhess_range with rho = 1 + 2^-50, Emax = 1074):
                # for n >= 2 the mantissa comes out of a rescaling, |exponent| <= 1074 (n-1); n = 1: exponent 0
                n = case["n"]
                m2 = Fraction(re_) ** 2 + Fraction(im_) ** 2
                self.count("f-exponent:" + ("0" if ex == 0 else "<0" if ex < 0 else "1..50" if ex <= 50 else ">50"))
                self.f_range_checked += 1
                bad = (ex != 0) if n == 1 else (m2 > (1 + Fraction(1, 2 ** 50)) ** 2 or abs(ex) > 1074 * (n - 1))
                if bad and okv and "f-range" not in self.reported:
                    self.reported.add("f-range")
                    ctx.violation("correspondence:f-mantissa-exponent-range",
                                  "mps_fhessenberg determinant returns a pair outside the range proved for the model of the loop "
                                  "(C20_fhess_mantissa / C20_fhess_range): order %d, |mantissa|^2 = %.17g, exponent %d; the value "
                                  "mantissa * 2^exponent is within the bound" % (n, float(m2), ex),
                                  self.replay_obj(case, "f", {"mantissa": [re_, im_], "exponent": ex}), no_input=True)
        if "d" in variants and "d" in r:
            mr, er, mi, ei = r["d"]
            if not (math.isfinite(mr) and math.isfinite(mi)):
                ctx.violation("nonfinite:d:%s:n=%d:%s" % (case["cls"], case["n"], case["id"]),
                              "mps_dhessenberg determinant returned a non-finite mantissa", self.replay_obj(case, "d", {}))
            else:
                val = (Fraction(mr) * pow2(er), Fraction(mi) * pow2(ei))
                self.check_value(case, "d", val, C_D, U_D)
        if "m" in variants:
            want = [Fraction(v) for v in case["s"]] + [Fraction(v) for z in case["H"] for v in z]
            for seen in r.get("seen", []):
                if seen != want:
                    raise vf.InfraError("case %s: the mpf inputs built by the harness are not the intended numbers" % case["id"])
            for (wp, vre, vim, em, ee, wpe, spec) in r.get("m", []):
                eb = Fraction(em) * pow2(ee) if math.isfinite(em) else None
                if eb is None or eb < 0:
                    ctx.violation("errbound-nonfinite:m@%d:%s" % (wp, case["id"]), "returned error bound is not a finite non-negative number",
                                  self.replay_obj(case, "m", {"wp": wp}))
                    continue
                self.count("m-prec:" + prec_kind(spec))
                self.check_value(case, "m", (vre, vim), C_M, Fraction(2) ** (1 - wp), wp=wp, errbound=eb, spec=spec)
                # correspondence of the error vector with the extracted model of the code (both directions)
                mod = case.get("errmodel", {}).get(wpe)
                if mod is not None:
                    em_model, det_model = mod
                    if det_model != case["det"]:
                        raise vf.InfraError("case %s: the two extracted determinant oracles disagree" % case["id"])
                    self.errvec_compared += 1
                    if eb < em_model * (1 - ERRVEC_TOL):
                        self.errvec_smaller.append((case, wp, "%.17g" % float(eb), "%.17g" % float(em_model)))
                    elif eb > em_model * (1 + ERRVEC_TOL):
                        self.errvec_larger.append((case, wp, "%.17g" % float(eb), "%.17g" % float(em_model)))
                    if em_model > 0:
                        rt = float(eb / em_model)
                        self.errvec_ratio = (min(self.errvec_ratio[0], rt), max(self.errvec_ratio[1], rt))
        if len(self.samples) < 6 and case["n"] <= 3:
            self.samples.append({"id": case["id"], "cls": case["cls"], "n": case["n"], "shift": [tok(v) for v in case["s"]],
                                 "H": [[tok(v) for v in z] for z in case["H"]],
                                 "exact_det": [float(case["det"][0]), float(case["det"][1])],
                                 "f": list(r.get("f", ())), "d": list(r.get("d", ())),
                                 "m": [[m[6], float(m[1]), float(m[2]), m[3] * 2.0 ** max(-1000, m[4])] for m in r.get("m", [])]})


def report_crash(ctx, judge, cases, res, rc, err, variants):
    """harness did not finish: sanitizer report or crash; returns the case at which it stopped"""
    stopped = None
    for c in cases:
        if not res.get(c["id"], {}).get("done"):
            stopped = c; break
    kind, fn = san_signature(err)
    if kind is None:
        kind = "crash:rc=%d" % rc
    sig = "%s:%s" % (kind, fn or "?")
    what = "%s in %s on a %dx%d upper Hessenberg matrix (variants %s)" % (kind, fn, stopped["n"] if stopped else -1,
                                                                       stopped["n"] if stopped else -1, variants)
    if sig == SIG_ASAN_D:
        what = "mps_dhessenberg_shifted_determinant: cdpe_sub_eq (vec[n], shift) reads and writes one element past the n-vector"
    ctx.violation(sig, what, judge.replay_obj(stopped, variants, {"stderr": err[-1500:]}) if stopped else {"stderr": err[-1500:]})
    return stopped


def report_errvec(ctx, judge):
    """verdict rule 2: the returned error bound differs from the modelled error recurrence although the
    predicate (error <= bound) still held on every case -> the model no longer describes the code"""
    if any(sg.startswith("errbound:") for sg, _, _, _ in ctx.violations):
        return                      # a concrete failing input has been reported already
    for lst, word in ((judge.errvec_smaller, "smaller"), (judge.errvec_larger, "larger")):
        if not lst:
            continue
        case, wp, got, want = lst[0]
        ctx.violation("correspondence:m-error-vector-%s-than-model" % word,
                      "mps_mhessenberg_shifted_determinant returns an error bound %s than the recurrence modelled in "
                      "coq/Hess/HessModelM.v (mhess_head, extracted) on %d of %d comparisons (first: order %d, wp %d: %s vs %s); no input "
                      "was found on which the true error exceeds the returned bound" % (word, len(lst), judge.errvec_compared,
                                                                                        case["n"], wp, got[:12], want[:12]),
                      judge.replay_obj(case, "m", {"wp": wp, "returned": got, "model": want}), no_input=True)


def evaluate(ctx, h, cases, judge):
    # exact side first (needs only the inputs)
    for c in cases: model_line(c, "D")          # fills c['sc'] for the cost estimate
    run_model_parallel(ctx, cases, {c["id"]: "DB" for c in cases})
    ctx.log("model: %d exact determinants + bounds" % len(cases))
    # f and m variants, real allocation sizes
    rc, res, err = run_harness(ctx, h, cases, "fm", 0)
    done = [c for c in cases if res.get(c["id"], {}).get("done")]
    todo = {}
    for c in done:
        for m in res.get(c["id"], {}).get("m", []):
            todo[(c["id"], m[5])] = (c, m[5])
    run_errvec_model(ctx, list(todo.values()))
    ctx.log("model: %d error vectors (extracted HEAD model)" % len(todo))
    for c in done: judge.judge_case(c, res, "fm")
    if rc != 0 or len(done) != len(cases):
        report_crash(ctx, judge, cases, res, rc, err, "fm")
    # d variant, real allocation sizes
    rc, resd, errd = run_harness(ctx, h, cases, "d", 0)
    doned = [c for c in cases if resd.get(c["id"], {}).get("done")]
    if rc != 0 or len(doned) != len(cases):
        report_crash(ctx, judge, cases, resd, rc, errd, "d")
        # look at the values nevertheless: same calls with the vector allocation padded
        rc2, resd2, errd2 = run_harness(ctx, h, cases, "d", 64)
        doned2 = [c for c in cases if resd2.get(c["id"], {}).get("done")]
        if rc2 != 0 or len(doned2) != len(cases):
            report_crash(ctx, judge, cases, resd2, rc2, errd2, "d(padded)")
        shifted = [c for c in doned2 if c["s"] != (0.0, 0.0)]
        run_model_parallel(ctx, shifted, {c["id"]: "C" for c in shifted})
        for c in doned2: judge.judge_case(c, resd2, "d")
        judge.padded_d = True
    else:
        for c in doned: judge.judge_case(c, resd, "d")
        judge.padded_d = False


# ====================================================================== matrix polynomial API (monomial-matrix-poly.c)
SIG_MPOLY_GUARD = "asan:heap-buffer-overflow:mps_monomial_matrix_poly_set_coefficient_d:index-between-degree-and-degree*m-accepted"
SIG_MPOLY_DOC = "value:mps_monomial_matrix_poly_meval:coefficients-of-degree>=1-ignored(det(P_0-xI)-instead-of-det(P(x)))"
FILL = struct.unpack("<d", b"\x3f" * 8)[0]          # what the harness leaves in every block handed out by mps_malloc


def gen_hess_block(rng, m, kind):
    if kind == "int":
        return gen_matrix(rng, m, 0, 0, 0, cplx=rng.random() < 0.7, zero_sub=0.1, small_int=4)
    return gen_matrix(rng, m, 53, -2, 3, cplx=rng.random() < 0.7, zero_sub=0.1)


def make_mpoly_cases(ctx):
    rng = ctx.rng
    cases = []

    def add(cls, deg, m, ops):
        cases.append({"id": "p%d" % len(cases), "cls": cls, "deg": deg, "m": m, "ops": ops})
    one = [(1.0, 0.0)]
    # witness of C20_mpoly_meval_not_matrix_polynomial_refuted: P(x) = [1] + [1] x at x = 1
    add("witness-doc", 1, 1, [("S", 0, one), ("S", 1, one), ("E", 64, (1.0, 0.0))])
    # witness of C20_mpoly_set_coeff_guard_refuted: m = 2, degree 1, i = 2
    add("witness-guard", 1, 2, [("S", 2, [(1.0, 0.0)] * 4), ("E", 64, (0.5, 0.0))])
    for _ in range(ctx.pick(40, 200)):
        deg = rng.choice([0, 1, 1, 2, 3])
        m = rng.choice([1, 2, 2, 3, 4, 6, 9])
        kind = rng.choice(["int", "full53"])
        ops = []
        idx = [rng.randint(0, deg) for _ in range(rng.randint(1, 5))]
        style = rng.random()
        if style < 0.25:
            idx = [i for i in idx if i != 0] or [deg] if deg > 0 else idx          # coefficient 0 never stored
        elif style < 0.5:
            idx = idx + [0]
        cls = "inbounds"
        for i in idx:
            ops.append(("S", i, gen_hess_block(rng, m, kind)))
            if rng.random() < 0.3:
                ops.append(("E", rng.choice(WPS[:5]), gen_shift(rng, "complex", 53, -2, 2)))
            if rng.random() < 0.15:
                ops.append(("S", rng.choice([-1, -7, deg * m + 1, deg * m + 5]), gen_hess_block(rng, m, kind)))
                cls = "with-rejected"
        ops.append(("E", rng.choice(WPS[:5]), gen_shift(rng, rng.choice(["real", "complex", "complex"]), 53, -2, 2)))
        if 0 not in [o[1] for o in ops if o[0] == "S" and 0 <= o[1] <= deg]:
            cls = "coefficient0-never-stored"
        add(cls, deg, m, ops)
    # indices between degree + 1 and degree * m (accepted by the guard as coded): each in its own process
    for _ in range(ctx.pick(3, 10)):
        deg = rng.choice([1, 2, 3]); m = rng.choice([2, 3, 4])
        i = rng.randint(deg + 1, deg * m)
        add("guard", deg, m, [("S", 0, gen_hess_block(rng, m, "int")), ("S", i, gen_hess_block(rng, m, "int")),
                              ("E", 64, gen_shift(rng, "real", 53, -2, 2))])
    return cases


def mpoly_harness_line(c):
    out = [c["id"], str(c["deg"]), str(c["m"])]
    for op in c["ops"]:
        if op[0] == "S":
            out += ["S", str(op[1])] + [vf.hexd(v) for z in op[2] for v in z]
        else:
            out += ["E", str(op[1]), vf.hexd(op[2][0]), vf.hexd(op[2][1])]
    return " ".join(out)


def mpoly_scale(c):
    vals = [FILL] + [v for op in c["ops"] for z in (op[2] if op[0] == "S" else [op[2]]) for v in z]
    c["sc"] = -min([dyadic_exp(v) for v in vals] + [0])


def mpoly_model(ctx, cases):
    """extracted coefficient-store model (Hess.mpoly_run), coded and fixed guard, on the calls before every E op
    and on the whole case: fills c['model'][fixed] = {'status': str per non-negative call, 'blocks': {k: block}}"""
    lines, keys = [], []
    for c in cases:
        mpoly_scale(c)
        sc = c["sc"]
        fill = hx(int(Fraction(FILL) * pow2(sc)))
        def pline(fixed, upto):
            toks = ["P", str(fixed), str(c["deg"]), str(c["m"]), fill, fill]
            for op in c["ops"][:upto]:
                if op[0] == "S" and op[1] >= 0:
                    toks += [str(op[1])] + [hx(int(Fraction(v) * pow2(sc))) for z in op[2] for v in z]
            return " ".join(toks)
        for fixed in (0, 1):
            for k, op in enumerate(c["ops"]):
                if op[0] == "E":
                    lines.append(pline(fixed, k)); keys.append((c, fixed, k))
            lines.append(pline(fixed, len(c["ops"]))); keys.append((c, fixed, None))
    rows = ctx.run_model_lines("hess", lines, workers=4)
    for (c, fixed, k), row in zip(keys, rows):
        f = row.split()
        mdl = c.setdefault("model", {}).setdefault(fixed, {"status": None, "blocks": {}})
        blk = [(Fraction(unhx(f[1 + 2 * j])) / pow2(c["sc"]), Fraction(unhx(f[2 + 2 * j])) / pow2(c["sc"])) for j in range(c["m"] ** 2)]
        if k is None:
            mdl["status"] = "" if f[0] == "-" else f[0]
        else:
            mdl["blocks"][k] = (("" if f[0] == "-" else f[0]), blk)


def mpoly_expected_status(c, fixed):
    """statuses of ALL set calls in order (negative indices: rejected by the first test, not part of the model)"""
    st = list(c["model"][fixed]["status"])
    out = []
    for op in c["ops"]:
        if op[0] != "S": continue
        if op[1] < 0: out.append("1")
        elif st: out.append(st.pop(0))
        else: out.append("?")                      # after an overflow the model stops
        if out[-1] == "2": break
    return "".join(out)


def mpoly_py_block0(c, upto, which):
    """independent statement of the specification (C20_mpoly_meval_is_det / C20_mpoly_block0): once a call has been
    accepted, the last matrix stored with index 0, else the fill; before any accepted call the zeros of mpc_vinit2"""
    m = c["m"]
    bound = c["deg"] * m if which == 0 else c["deg"]
    blk = [(Fraction(FILL), Fraction(FILL))] * (m * m)
    accepted = False
    for op in c["ops"][:upto]:
        if op[0] == "S" and 0 <= op[1] <= bound:
            accepted = True
            if op[1] == 0:
                blk = [(Fraction(a), Fraction(b)) for a, b in op[2]]
    return blk if accepted else [(Fraction(0), Fraction(0))] * (m * m)


def run_mpoly_harness(ctx, h, cases):
    text = "\n".join(mpoly_harness_line(c) for c in cases) + "\n"
    rc, out, err = vf.sh([h], input=text, timeout=ctx.pick(300, 900), env=ctx.san_env())
    res = {}
    for row in out.split("\n"):
        f = row.split()
        if not f: continue
        r = res.setdefault(f[1], {"S": [], "V": {}, "done": False})
        if f[0] == "S": r["S"].append(f[3])
        elif f[0] == "V":
            r["V"][int(f[2])] = (int(f[3]), mpf_digits_to_frac(f[4], int(f[5])), mpf_digits_to_frac(f[6], int(f[7])), vf.dhex(f[8]), int(f[9]))
        elif f[0] == "Z": r["done"] = True
    return rc, res, err


def mpoly_replay_obj(c, extra=None):
    o = {"mpoly": {"id": c["id"], "cls": c["cls"], "deg": c["deg"], "m": c["m"],
                   "ops": [[op[0], op[1], [[vf.hexd(a), vf.hexd(b)] for a, b in op[2]]] if op[0] == "S"
                           else [op[0], op[1], [vf.hexd(op[2][0]), vf.hexd(op[2][1])]] for op in c["ops"]]}}
    if extra: o.update(extra)
    return o


def mpoly_case_from_replay(obj):
    c = obj["mpoly"]
    ops = []
    for op in c["ops"]:
        if op[0] == "S": ops.append(("S", op[1], [(vf.dhex(a), vf.dhex(b)) for a, b in op[2]]))
        else: ops.append(("E", op[1], (vf.dhex(op[2][0]), vf.dhex(op[2][1]))))
    return {"id": c.get("id", "p0"), "cls": c.get("cls", "replay"), "deg": c["deg"], "m": c["m"], "ops": ops}


def evaluate_mpoly(ctx, judge, cases):
    """public API of the matrix polynomial (ASan+UBSan) against the extracted coefficient-store model and the
    verified determinant oracle; the predicate is the m variant's own: |value - det (P_0 - x I)| <= returned bound."""
    h = ctx.compile_harness(["c20_mpoly.c"], "c20_mpoly", mode="san", extra_ldflags="-Wl,--wrap=mps_malloc")
    mpoly_model(ctx, cases)
    stats = {"cases": len(cases), "set_calls": 0, "rejected": 0, "evaluations": 0, "by_class": {}, "agrees_with_guard": {"coded": 0, "fixed": 0, "both": 0},
             "block0_spec_checked": 0, "overflow_reproduced": 0}
    # cases for which the model of the code AS WRITTEN predicts an out-of-bounds memmove run alone
    alone = [c for c in cases if "2" in c["model"][0]["status"]]
    together = [c for c in cases if c not in alone]
    runs = [together] + [[c] for c in alone]
    pseudo = []
    for group in runs:
        if not group: continue
        rc, res, err = run_mpoly_harness(ctx, h, group)
        for c in group:
            r = res.get(c["id"], {"S": [], "V": {}, "done": False})
            stats["by_class"][c["cls"]] = stats["by_class"].get(c["cls"], 0) + 1
            got = "".join(r["S"])
            exp_c, exp_f = mpoly_expected_status(c, 0), mpoly_expected_status(c, 1)
            if not r["done"]:
                kind, fn = san_signature(err)
                if kind == "asan:heap-buffer-overflow" and fn == "mps_monomial_matrix_poly_set_coefficient_d" and exp_c.endswith("2") \
                        and got == exp_c[:-1]:
                    stats["overflow_reproduced"] += 1
                    k = [j for j, op in enumerate(c["ops"]) if op[0] == "S"][len(got)]
                    ctx.violation(SIG_MPOLY_GUARD,
                                  "mps_monomial_matrix_poly_set_coefficient_d accepts the index %d of a matrix polynomial of degree %d (m = %d): the guard "
                                  "compares with the degree of the scalar polynomial, degree * m, and the memmove writes past the coefficient array "
                                  "(witness of C20_mpoly_set_coeff_guard_refuted)" % (c["ops"][k][1], c["deg"], c["m"]),
                                  mpoly_replay_obj(c, {"stderr": err[-1200:]}))
                else:
                    ctx.violation("%s:%s:mpoly:%s" % (kind or "crash:rc=%d" % rc, fn or "?", c["cls"]),
                                  "matrix polynomial API: %s in %s (class %s, degree %d, m %d)" % (kind, fn, c["cls"], c["deg"], c["m"]),
                                  mpoly_replay_obj(c, {"stderr": err[-1200:]}))
                continue
            stats["set_calls"] += len(got); stats["rejected"] += got.count("1")
            if got == exp_c and got == exp_f: which = 0; stats["agrees_with_guard"]["both"] += 1
            elif got == exp_c: which = 0; stats["agrees_with_guard"]["coded"] += 1
            elif got == exp_f: which = 1; stats["agrees_with_guard"]["fixed"] += 1
            else:
                ctx.violation("correspondence:mpoly-set-coefficient-status",
                              "set_coefficient_d accepts/rejects differently from both models of the guard (got %s, as coded %s, fixed %s; degree %d, m %d)"
                              % (got, exp_c, exp_f, c["deg"], c["m"]), mpoly_replay_obj(c), no_input=True)
                continue
            for k, op in enumerate(c["ops"]):
                if op[0] != "E": continue
                st, blk = c["model"][which]["blocks"][k]
                if blk != mpoly_py_block0(c, k, which):
                    ctx.violation("correspondence:mpoly-model-block0", "the extracted coefficient-store model does not hand the last coefficient of degree 0 "
                                  "(or the initial content) to the evaluation", mpoly_replay_obj(c), no_input=True)
                    continue
                stats["block0_spec_checked"] += 1
                wpe, vre, vim, em, ee = r["V"][k]
                pseudo.append(({"id": "%s.%d" % (c["id"], k), "cls": "mpoly:" + c["cls"], "n": c["m"], "H": blk, "s": (Fraction(op[2][0]), Fraction(op[2][1])),
                                "wps": []}, c, k, wpe, (vre, vim), Fraction(em) * pow2(ee)))
    # exact determinants of the blocks handed to the evaluation
    pcs = [p[0] for p in pseudo]
    for pc in pcs: model_line(pc, "D")
    run_model_parallel(ctx, pcs, {pc["id"]: "DB" for pc in pcs})
    for pc, c, k, wpe, val, eb in pseudo:
        stats["evaluations"] += 1
        judge.count("mpoly-wp:%d" % wpe)
        judge.check_value(pc, "m", val, C_M, Fraction(2) ** (1 - wpe), wp=wpe, errbound=eb, spec="mpoly")
        if c["cls"] == "witness-doc":
            # documented: det (P (x)); P (x) = [1] + [1] x at x = 1 is 2
            doc = (Fraction(2), Fraction(0))
            if judge.err2(val, doc) > eb * eb:
                ctx.violation(SIG_MPOLY_DOC,
                              "mps_monomial_matrix_poly_meval is documented to return det (P (x)) with an upper bound of the absolute error, but evaluates "
                              "det (P_0 - x I) from the first m x m block only: P (x) = [1] + [1] x at x = 1 gives %s with error bound %.3g instead of 2 "
                              "(witness of C20_mpoly_meval_not_matrix_polynomial_refuted)" % (float(val[0]), float(eb)),
                              mpoly_replay_obj(c, {"computed": [str(val[0]), str(val[1])], "documented": "2"}))
    return stats


def load_own_known(ctx):
    """the fragment known/C20.json is the source of the C20 entries of known_findings.json (lib/mkmanifest.py merges
    it); read it as well so that the verdict does not depend on the merge having been run"""
    p = os.path.join(vf.VERIF, "known", "C20.json")
    try:
        frag = json.load(open(p)).get("findings", [])
    except Exception:
        return
    have = {k.get("signature") for k in ctx.known}
    for f in frag:
        if f.get("property") == "C20" and f.get("status", "open") == "open" and f.get("signature") not in have:
            ctx.known.append(f)



def case_from_replay(obj):
    c = obj["case"]
    return {"id": c.get("id", "r0"), "cls": c.get("cls", "replay"), "n": c["n"], "wps": c.get("wps", [64]),
            "s": (untok(c["s"][0]), untok(c["s"][1])),
            "H": [(untok(a), untok(b)) for a, b in c["H"]]}


def run(ctx):
    ctx.prove()
    h = ctx.compile_harness(["c20_hess.c"], "c20_hess", mode="san", extra_ldflags="-Wl,--wrap=mps_malloc")
    judge = Judge(ctx)
    load_own_known(ctx)
    if ctx.replay:
        robj = json.load(open(ctx.replay))
        if "mpoly" in robj:
            st = evaluate_mpoly(ctx, judge, [mpoly_case_from_replay(robj)])
            ctx.proof_violation_if_broken(search=lambda: bool(ctx.violations))
            return ctx.finish("proof", {"evaluations": judge.evals, "replay": ctx.replay, "distinct_nontrivial": len(judge.nontrivial),
                                        "rule": "replayed matrix-polynomial case", "samples": [], "matrix_polynomial_api": st})
        case = case_from_replay(robj)
        evaluate(ctx, h, [case], judge)
        ctx.proof_violation_if_broken(search=lambda: bool(ctx.violations))
        report_errvec(ctx, judge)
        return ctx.finish("proof", {"evaluations": judge.evals, "replay": ctx.replay, "distinct_nontrivial": len(judge.nontrivial),
                                    "rule": "replayed case", "samples": judge.samples})
    cases = make_cases(ctx)
    evaluate(ctx, h, cases, judge)
    mpoly_stats = evaluate_mpoly(ctx, judge, make_mpoly_cases(ctx))
    ctx.log("matrix polynomial API: %(cases)d cases, %(set_calls)d set calls, %(evaluations)d evaluations" % mpoly_stats)
    ctx.proof_violation_if_broken(search=lambda: bool(ctx.violations))
    report_errvec(ctx, judge)

    cov = {
        "evaluations": judge.evals,
        "distinct_nontrivial": len(judge.nontrivial),
        "rule": "one evaluation = one (matrix, shift, variant[, precision]) call of the real function compared with the exact determinant "
                "from the extracted recurrence; non-trivial = the computed value differs from the exact determinant (rounding actually "
                "happened) and B > 0; distinct by (case id, variant, precision), every case has its own random matrix",
        "matrices": len(cases),
        "histogram": dict(sorted(judge.hist.items())),
        "orders": sorted({c["n"] for c in cases}),
        "max_error_over_bound": judge.maxratio,
        "max_error_over_bound_by_class": dict(sorted(judge.maxratio_cls.items())),
        "m_error_vector": {"compared_with_model": judge.errvec_compared, "smaller_than_model": len(judge.errvec_smaller),
                           "larger_than_model": len(judge.errvec_larger), "tolerance": "1e-6 relative, both directions",
                           "returned_over_model_min_max": list(judge.errvec_ratio)},
        "matrix_polynomial_api": mpoly_stats,
        "f_mantissa_exponent_range_checked": judge.f_range_checked,
        "d_variant_values_from_padded_run": getattr(judge, "padded_d", None),
        "constants": {"C_f": C_F, "C_d": C_D, "C_m": C_M, "u_f": "2^-53", "u_d": "2^-52", "u_m": "2^(1-wp)",
                      "bound": "gamma(C n, u) * B, B = recurrence on moduli (rounded up at 2^-%d)" % K_MOD},
        "samples": judge.samples,
        "trusted_base": [
            "Coq 8.16.1 kernel, MathComp 1.15 (matrix.v determinant theory)",
            "extraction to OCaml (ExtrOcamlBasic, ExtrOcamlNativeString only) and ocaml/hess_driver.ml (hex <-> Z conversion, row splitting)",
            "harness/c20_mpoly.c (public matrix-polynomial API, every mps_malloc block pre-filled with 0x3f) and the extracted coefficient-store model Hess.mpoly_run",
            "harness/c20_hess.c (exact export: bit patterns of doubles, mpf_get_str base 16) and the exact rational predicate in checks/C20.py",
            "the standard rounding model (no underflow/overflow) for the a-priori theorem; constants C documented in checks/C20.py",
            "mathcomp algebra-tactics `ring` (elpi) used in HessApriori.v/HessErrVec.v; proof terms are checked by the kernel",
            "extracted mhess_head_dy (HessDyadic.v): exact Gaussian dyadic values, dyadic bounds rounded up (dy_norm, modulus cut to 32 bits): correspondence of the m error vector only, not the predicate",
            "modelled, not verified: the frexp/pow exponent choice of the double variant (theorem holds for every policy), mpf/rdpe primitive roundings (C12/C13)",
        ],
    }
    assumptions = [
        "entries are moderate (no overflow/underflow of intermediate doubles); orders 1..200",
        "the determinant value of the f variant is read as mantissa * 2^exponent",
        "rounding unit of the m variant taken as the function's own epsilon 2^(1-wp)",
    ]
    return ctx.finish("proof", cov, assumptions)
