"""C05 -- the solver's guarantees do not depend on the number of worker threads or on the interleaving.

Proof: coq/Props/Properties_C05.v (job queue, worker protocol, nzeros, termination bound, inclusion invariant,
       generic lock-order theorem, LockGen_acyclic on the regenerated edge list).
Tie  : harness/c05_solve.c = the REAL mps_mpsolve, every pthread call of libmps redirected to the scheduler shim,
       ASan+UBSan build; small inputs x {1,2,3,4,8,16} threads x random / PCT schedules (thorough: + bounded DFS).
       Per run: (i) shim verdict (deadlock, step limit, misuse, crash); (ii) results judged by the property's own
       predicate with the proved-sound root oracle (count identity, every finite disc contains a root, isolated /
       approximated discs hold one root, every root covered); (iii) ASan; (iv) lock edges -> Conc/Gen/LockGen.v,
       obligation LockGen_acyclic re-checked; (v) trace replayed through the extracted Worker.step (bin/worker) AND, lock by
       lock, through the extracted refined step function Worker.rstep (coq/Conc/WorkerRefined.v: the six worker bodies
       instruction by instruction): tasks are bracketed by a trampoline (--wrap=mps_thread_pool_assign), the job handed out
       (--wrap=mps_thread_job_queue_next), *nzeros / *excep / root[i]->again and a hash of the root's value fields are sampled
       by the harness beside every lock / unlock call of a worker and must equal the model's.
"""
import os, re, json, time, collections, concurrent.futures as cf
from fractions import Fraction as Fr
import vf, solve as S, polygen as G, e2e

WRAP = ("-Wl,--wrap=vf_mutex_init,--wrap=vf_mutex_lock,--wrap=vf_mutex_destroy,--wrap=vf_mutex_unlock,--wrap=mps_mpsolve,"
        "--wrap=mps_thread_pool_assign,--wrap=mps_thread_job_queue_next")
SIG_XUNLOCK = "cross-thread-unlock:block_mutex:mps_mcluster"
THREADS = [1, 2, 3, 4, 8, 16]
CONFIGS = [["-a", "u", "-G", "i"], ["-a", "s", "-G", "i"], ["-a", "u", "-G", "a", "-o", "60"], ["-a", "s", "-G", "a", "-o", "60"],
           ["-a", "u", "-G", "i", "-t", "d"], ["-a", "s", "-G", "i", "-t", "d"], ["-a", "s", "-G", "a", "-o", "30", "-t", "d"],
           ["-a", "u", "-G", "a", "-o", "100"]]
STATUS_NAME = {1: "deadlock", 2: "steplimit", 3: "misuse", 4: "assert", 5: "crash", 6: "timeout"}


def build_cases(ctx):
    rng = ctx.rng
    out = []
    def mono(name, cls, coeffs): out.append(G.mono_case(name, cls, coeffs, rng))
    for i, d in enumerate([3, 5, 8, 11] if ctx.quick() else [2, 3, 4, 5, 6, 8, 10, 12]):
        mono("randint%d_%d" % (d, i), "random-integer", G.rand_int_poly(rng, d, rng.choice([3, 10])))
    mono("randintc6", "random-integer-complex", G.rand_int_poly(rng, 6, 8, True))
    out.append(G.from_roots_case("roots7", "from-dyadic-roots", list({G.rand_dyadic_root(rng, 4, 4) for _ in range(7)}), rng))
    base = G.rand_dyadic_root(rng, 2, 2, False)
    out.append(G.from_roots_case("cluster5", "clustered-2^-20",
                                 [base, (base[0] + Fr(1, 1 << 20), base[1]), (base[0], base[1] + Fr(1, 1 << 20))] +
                                 list({G.rand_dyadic_root(rng, 3, 3) for _ in range(2)} - {base}), rng))
    z1, z2 = G.rand_dyadic_root(rng, 3, 2, False), G.rand_dyadic_root(rng, 3, 2, True)
    out.append(G.from_roots_case("mult6", "multiple-roots", [z1] * 3 + [z2] * 2 + [(Fr(5), Fr(0))], rng))
    out.append(G.from_roots_case("wilk6", "wilkinson", [(Fr(k), Fr(0)) for k in range(1, 7)], rng))
    mono("zero4", "zero-roots", [(Fr(0), Fr(0))] * 2 + G.rand_int_poly(rng, 4, 6))
    out.append(G.secular_case("sec7", rng, 7, False))
    out.append(G.secular_case("sec5c", rng, 5, True))
    out.append(G.chebyshev_case("cheb6", rng, 6))
    if not ctx.quick():
        out.append(G.secular_case("sec10", rng, 10, False))
        mono("kac9", "kac", [(Fr(rng.choice([-1, 1])), Fr(0)) for _ in range(10)])
        mono("unity12", "x^n-1", [(Fr(-1), Fr(0))] + [(Fr(0), Fr(0))] * 11 + [(Fr(1), Fr(0))])
    return out


def build_jobs(ctx, cases):
    """(case, opts, threads, schedule args) -- deterministic"""
    jobs = []
    nr, npct = ctx.pick((3, 2), (40, 30))
    k = 0
    for ci, c in enumerate(cases):
        for gi, cfg in enumerate(CONFIGS):
            if c["cls"] in ("secular", "chebyshev") and cfg[1] == "u": continue   # other properties' known findings
            if ctx.quick() and (ci + gi) % 4 == 3: continue
            nt = THREADS[k % len(THREADS)]; k += 1
            seed = ctx.seed * 1000 + k
            jobs.append({"case": c, "opts": cfg, "threads": nt,
                         "sched": ["--random", str(nr), "--pct", str(npct), "--depth", str(2 + k % 2), "--seed", str(seed)]})
    # the pool is RAISED above its initial size and lowered again by the library (degree < n_threads): the grow and the shrink
    # branch of mps_thread_pool_set_concurrency_limit together.  --pool0 K = size of the pool of the new context, -j J > K.
    # J = K + 2*degree and J > K + 2*degree are the two regimes in which a miscounted grow loop leaves a pool without threads
    # (deadlock of the first parallel step) / walks past the thread list.
    lows = sorted([c for c in cases if c["cls"] not in ("secular", "chebyshev") and 2 <= c["degree"] <= 5], key=lambda c: c["degree"])[:2]
    for c in lows:
        d = c["degree"]
        for cfg in (CONFIGS[0], CONFIGS[1]):
            for (k0, jj) in ((2, 2 + 2 * d), (1, 1 + 2 * d + 3), (2, 3)):
                k += 1
                jobs.append({"case": c, "opts": cfg, "threads": jj, "pool0": k0,
                             "sched": ["--random", str(ctx.pick(2, 10)), "--pct", str(ctx.pick(1, 6)), "--depth", "3", "--seed", str(ctx.seed * 1000 + k)]})
    if not ctx.quick():
        small = [c for c in cases if c["degree"] <= 4 and c["cls"] not in ("secular", "chebyshev")][:3]
        for c in small:
            for cfg in (CONFIGS[0], CONFIGS[1]):
                for nt in (2, 3):
                    jobs.append({"case": c, "opts": cfg, "threads": nt, "sched": ["--dfs", "2", "--max-runs", "1500"]})
    return jobs


def split_blocks(text):
    """[(seq, export_text, header, trace_len)] from the harness output"""
    runs = []; cur = None; exp = []; in_res = False
    for ln in text.split("\n"):
        if ln.startswith("# result-end"): in_res = False; continue
        if ln.startswith("# result "): in_res = True; exp = []; continue
        if ln.startswith("# run "):
            in_res = False
            runs.append({"hdr": ln, "export": "\n".join(exp)}); exp = []
            continue
        if in_res: exp.append(ln)
    for r in runs:
        t = r["hdr"].split()
        r["seq"] = int(t[2]); kv = {}
        i = 3
        while i + 1 < len(t): kv[t[i]] = t[i + 1]; i += 2
        r["kv"] = kv
    return runs


def run_job(j, idx, harness, syms, worker, env, scratch, timeout):
    pol = os.path.join(scratch, "j%d.pol" % idx); outp = os.path.join(scratch, "j%d.out" % idx)
    with open(pol, "w") as f: f.write(j["case"]["text"])
    cmd = [harness, pol] + j["opts"] + ["-j", str(j["threads"]), "--syms", syms] + j["sched"] + ["--timeout", str(j.get("run_timeout", 20))]
    if j.get("pool0"): cmd += ["--pool0", str(j["pool0"])]
    t0 = time.time()
    with open(outp, "w") as fo:
        import subprocess
        try:
            p = subprocess.run(cmd, stdout=fo, stderr=subprocess.PIPE, env=env, timeout=timeout)
            rc, err = p.returncode, p.stderr.decode("utf-8", "replace")
        except subprocess.TimeoutExpired:
            rc, err = -9, "harness timeout"
    text = open(outp).read()
    rcw, wout, werr = vf.sh([worker], input=text, timeout=timeout)
    os.remove(outp)
    j["rc"], j["err"], j["wall"] = rc, err[-6000:], time.time() - t0
    j["runs"] = split_blocks(text)
    j["wout"] = wout if rcw == 0 else ""
    j["werr"] = "" if rcw == 0 else (werr or "")[-2000:]
    return j


def trim(poly):
    p = list(poly)
    while p and p[-1][0] == 0 and p[-1][1] == 0: p.pop()
    return p


def write_lockgen(edges, same):
    path = os.path.join(vf.VERIF, "coq", "Conc", "Gen", "LockGen.v")
    def q(s): return '"%s"' % s.replace('"', "")
    txt = ("(* GENERATED by checks/C05.py from the scheduler traces of the real solver -- do not edit.\n"
           "   lock_edges: (A, B) = some thread acquired a lock of class B while holding a lock of class A.\n"
           "   same_class_pairs: (C, (i, j)) = a lock C.j was acquired while C.i was held. *)\n"
           "From Coq Require Import List String.\nImport ListNotations.\nOpen Scope string_scope.\n"
           "Definition lock_edges : list (string * string) := [%s].\n"
           "Definition same_class_pairs : list (string * (nat * nat)) := [%s].\n"
           % ("; ".join("(%s, %s)" % (q(a), q(b)) for a, b in edges),
              "; ".join("(%s, (%d, %d))" % (q(c), i, k) for c, i, k in same)))
    old = open(path).read() if os.path.exists(path) else ""
    if old != txt:
        with open(path, "w") as f: f.write(txt)
    return old != txt


def run(ctx):
    try:
        frag = json.load(open(os.path.join(vf.VERIF, "known", "C05.json")))["findings"]
        have = set(k.get("signature") for k in ctx.known)
        ctx.known += [f for f in frag if f.get("signature") not in have and f.get("status", "open") == "open"]
    except Exception:
        pass
    harness = ctx.compile_harness(["vf_sched.c", "c05_solve.c"], "c05_solve", mode="shimsan", extra_ldflags=WRAP)
    syms = harness + ".syms"
    rc, _, e = vf.sh("nm -S -n --defined-only %s > %s" % (harness, syms))
    if rc != 0: raise vf.InfraError("nm failed: %s" % e)
    env = ctx.san_env({"UBSAN_OPTIONS": "print_stacktrace=0:halt_on_error=1:exitcode=98"})
    # the extracted models (abstract + refined) and the hand-written trace driver; rebuilt when a source is newer
    wbin = os.path.join(vf.BINDIR, "worker")
    srcs = [os.path.join(vf.VERIF, x) for x in ("coq/Conc/WorkerRefined.v", "coq/Conc/WorkerModel.v", "coq/Conc/JobQueue.v", "coq/Conc/LockOrder.v",
                                                 "coq/Extract/Extract_worker.v", "ocaml/worker_driver.ml")]
    if not os.path.exists(wbin) or any(os.path.getmtime(x) > os.path.getmtime(wbin) for x in srcs if os.path.exists(x)):
        tmpb = wbin + ".%d.tmp" % os.getpid()
        rc, o, e = vf.sh("cd %s/coq && timeout 900 make -s Extract/Extract_worker.vo 2>&1 | tail -5; cd ../ocaml && "
                         "ocamlfind ocamlopt -O2 -w -a -package str,unix,zarith -linkpkg worker.mli worker.ml worker_driver.ml -o %s 2>&1 && mv %s %s"
                         % (vf.VERIF, tmpb, tmpb, wbin), timeout=1800)
        if rc != 0 or not os.path.exists(wbin):
            raise vf.InfraError("building bin/worker failed: %s %s" % (o[-1500:], e[-1500:]))
    worker = ctx.model_bin("worker")

    mstats = {}
    if ctx.replay and json.load(open(ctx.replay)).get("kind") == "mcluster":
        mcluster_phase(ctx, mstats)
        ctx.prove()
        return ctx.finish("proof", {"evaluations": 1, "distinct_nontrivial": 1, "rule": "replay of one mps_mcluster schedule", "samples": [], "histogram": dict(mstats.get("mcluster", {})),
                                    "trusted_base": ["replay"]}, [])
    n_mc = mcluster_phase(ctx, mstats) or 0
    ctx.log("mps_mcluster under the scheduler: %s" % dict(mstats.get("mcluster", {})))
    if ctx.replay:
        rp = json.load(open(ctx.replay))
        case = {"name": rp["case"], "cls": rp.get("class", "replay"), "text": rp["text"], "degree": 0}
        sched = rp["sched"]
        if rp.get("schedule") and rp["schedule"] != "-":
            sf = os.path.join(ctx.scratch, "replay.sched"); open(sf, "w").write(rp["schedule"]); sched = ["--replay-file", sf]
        jobs = [{"case": case, "opts": rp["opts"], "threads": rp["threads"], "sched": sched, "pool0": rp.get("pool0")}]
    else:
        cases = build_cases(ctx)
        jobs = build_jobs(ctx, cases)
    ctx.log("%d harness jobs" % len(jobs))
    os.makedirs(os.path.join(ctx.scratch, "jobs"), exist_ok=True)
    with cf.ThreadPoolExecutor(max_workers=int(os.environ.get("VERIF_JOBS", "16"))) as ex:
        jobs = list(ex.map(lambda ij: run_job(ij[1], ij[0], harness, syms, worker, env, os.path.join(ctx.scratch, "jobs"),
                                              ctx.pick(230, 2000)), list(enumerate(jobs))))
    ctx.log("exploration done: %d runs" % sum(len(j["runs"]) for j in jobs))

    stats = collections.Counter(); samples = []; edges = set(); same = set(); lock_hist = collections.Counter()
    tot = collections.Counter(); recs = []; seen_sig = set(); baseline = {}
    rtot = collections.Counter(); rvar = collections.Counter(); rvar1 = collections.Counter(); rcalls = collections.Counter()
    def rep_of(j, r, extra=None):
        d = {"case": j["case"]["name"], "class": j["case"]["cls"], "text": j["case"]["text"], "opts": j["opts"], "threads": j["threads"],
             "sched": (["--random", "1", "--seed", "0"] if False else j["sched"]), "mode": r["kv"].get("mode"), "seed": r["kv"].get("seed"),
             "schedule": r["kv"].get("sched", "-"), "pool0": j.get("pool0"),
             "how": "harness/c05_solve FILE <opts> -j <threads> [--pool0 <pool0>] --syms <nm -S -n> --replay-file <schedule>   (or ./check C05 --replay <this file>)"}
        if extra: d.update(extra)
        return d
    for j in jobs:
        c = j["case"]; cfgs = " ".join(j["opts"]); tag = "%s:%s:j=%d%s" % (c["name"], cfgs.replace(" ", ""), j["threads"], (":pool0=%d" % j["pool0"]) if j.get("pool0") else "")
        if j.get("pool0"): stats["runs:pool-raised-from-%d-to-%d(degree %d)" % (j["pool0"], j["threads"], c["degree"])] += len(j["runs"])
        if j["rc"] != 0:
            raise vf.InfraError("c05_solve failed rc=%s on %s %s: %s" % (j["rc"], c["name"], cfgs, j["err"][-1500:]))
        if j["werr"] or not j["wout"]:
            raise vf.InfraError("bin/worker failed on %s %s: %s" % (c["name"], cfgs, j["werr"]))
        wl = j["wout"].splitlines()
        bad = {}
        for ln in wl:
            if ln.startswith("BAD "):
                d = dict(re.findall(r'(\w+)=("[^"]*"|\S+)', ln)); bad[int(d["seq"])] = d
            elif ln.startswith("EDGES"):
                for e_ in ln.split()[1:]:
                    a, b = e_.split(">"); edges.add((a, b))
            elif ln.startswith("SAME"):
                for e_ in ln.split()[1:]:
                    cc, a, b = e_.rsplit(":", 2); same.add((cc, int(a), int(b)))
            elif ln.startswith("LOCKS"):
                for e_ in ln.split()[1:]:
                    cc, n_ = e_.rsplit(":", 1); lock_hist[cc] += int(n_)
            elif ln.startswith("SUMMARY"):
                for k_, v_ in re.findall(r"(\w+)=(\d+)", ln): tot[k_] += int(v_) if k_ != "maxfetch" else 0; tot["maxfetch"] = max(tot["maxfetch"], int(dict(re.findall(r"(\w+)=(\d+)", ln))["maxfetch"]))
        rbad = {}
        for ln in wl:
            if ln.startswith("RBAD "):
                d = dict(re.findall(r'(\w+)=("[^"]*"|\S+)', ln)); rbad[int(d["seq"])] = d
            elif ln.startswith("RSUMMARY"):
                for k_, v_ in re.findall(r"(\w+)=(\d+)", ln): rtot[k_] += int(v_)
            elif ln.startswith("RVARIANTS"):
                for e_ in ln.split()[1:]:
                    nm, a_, b_ = e_.split(":"); rvar[nm] += int(a_); rvar1[nm] += int(b_)
            elif ln.startswith("RCALLS"):
                for e_ in ln.split()[1:]:
                    nm, a_ = e_.rsplit("=", 1); rcalls[nm] += int(a_)
            elif ln.startswith("RCHECKPROG") and "true" not in ln:
                raise vf.InfraError("extracted check_prog rejects the transcribed worker programs")
        runinfo = {}
        for ln in wl:
            if ln.startswith("RUN "):
                d = dict(re.findall(r"(\w+)=(\S+)", ln)); runinfo[int(d["seq"])] = d
        for r in j["runs"]:
            st = int(r["kv"].get("status", "0")); what = r["kv"].get("what", "-"); ri = runinfo.get(r["seq"], {})
            stats["runs:threads=%d" % j["threads"]] += 1; stats["runs:mode=%s" % r["kv"].get("mode")] += 1
            if int(ri.get("xunlock", "0")) > 0:
                stats["runs-with-cross-thread-unlock"] += 1
                if SIG_XUNLOCK not in seen_sig:
                    seen_sig.add(SIG_XUNLOCK)
                    ctx.violation(SIG_XUNLOCK, "mps_mcluster locks block_mutexes[j] in the calling thread and _mps_mcluster_worker unlocks it from a pool thread "
                                  "(a default pthread mutex used as a binary semaphore: undefined by POSIX); seen on %s %s with %d threads" % (c["name"], cfgs, j["threads"]),
                                  rep_of(j, r))
            memory_ub = re.search(r"runtime error: [^\n]*(null pointer|misaligned address|out of bounds|invalid vptr|not a valid value)", j["err"] or "")
            if not memory_ub and ((st == 5 and "exit-98" in what) or (st == 6 and "runtime error:" in j["err"] and "AddressSanitizer" not in j["err"])):
                # (status 6: the process sometimes hangs in exit() after the UBSan report and is killed by the run's alarm)
                # UBSan (arithmetic undefined behaviour, e.g. the exponent difference in rdpe_add): schedule independent,
                # judged by C12 / C03, not a predicate of this property; the run has no result to judge
                stats["ubsan-report(not judged here: C12/C03)"] += 1
                continue
            if st == 6:
                # no result within the per-run time limit: schedule dependent only if the same solve with ONE thread under the
                # default schedule finishes in time (otherwise the input is slow for every schedule: totality/time is C03's predicate)
                bkey = (c["name"], cfgs)
                if bkey not in baseline:
                    ef = os.path.join(ctx.scratch, "empty.sched"); open(ef, "w").write("-\n")
                    bj = run_job({"case": c, "opts": j["opts"], "threads": 1, "sched": ["--replay-file", ef], "run_timeout": 20}, 900000 + len(baseline),
                                 harness, syms, worker, env, os.path.join(ctx.scratch, "jobs"), 120)
                    baseline[bkey] = [int(x["kv"].get("status", "0")) for x in bj["runs"]]
                if baseline[bkey] and baseline[bkey][0] == 6:
                    stats["slow-for-every-schedule(single-thread baseline also exceeds the time limit; not judged here)"] += 1
                    continue
            if st != 0:
                kind = STATUS_NAME.get(st, "status%d" % st)
                asan = (st == 5 and "exit-97" in what) or "AddressSanitizer" in j["err"] or bool(memory_ub)
                if asan: kind = "sanitizer"
                stats["VIOLATION:" + kind] += 1
                m = re.search(r"(ERROR: AddressSanitizer: [^\n]*|runtime error: [^\n]*)", j["err"])
                sig = "%s:%s:%s" % (kind, what if kind in ("misuse", "assert") else (m.group(1)[:80].replace(" ", "_") if (asan and m) else "-"), tag)
                if sig not in seen_sig:
                    seen_sig.add(sig)
                    ctx.violation(sig, "%s under the scheduler shim: %s %s with %d threads, %s schedule seed %s (%s)%s"
                                  % (kind, c["name"], cfgs, j["threads"], r["kv"].get("mode"), r["kv"].get("seed"), what,
                                     (": " + m.group(1)) if m else ""), rep_of(j, r, {"stderr": j["err"][-3000:] if asan else ""}))
                continue
            if r["seq"] in bad:
                d = bad[r["seq"]]; kind = d.get("kind", "?")
                stats["model:" + kind] += 1
                sig = "correspondence:%s:%s" % (kind, tag)
                if sig not in seen_sig:
                    seen_sig.add(sig)
                    ctx.violation(sig, "trace of the real solver not accepted by the worker model (%s at trace line %s, event %s: %s); %s %s, %d threads, %s seed %s"
                                  % (kind, d.get("line"), d.get("event"), d.get("detail"), c["name"], cfgs, j["threads"], r["kv"].get("mode"), r["kv"].get("seed")),
                                  rep_of(j, r, {"model": d}), no_input=(kind == "model-reject"))
            else:
                stats["model:accepted"] += 1
            if r["seq"] in rbad:
                d = rbad[r["seq"]]; kind = d.get("kind", "?")
                stats["refined:" + kind] += 1
                sig = "correspondence:%s:%s:%s" % (kind, d.get("variant", "-"), tag)
                if sig not in seen_sig:
                    seen_sig.add(sig)
                    ctx.violation(sig, "trace of the real solver not accepted lock by lock by the refined worker model, body %s (%s at trace line %s, event %s: %s); %s %s, %d threads, %s seed %s"
                                  % (d.get("variant"), kind, d.get("line"), d.get("event"), d.get("detail"), c["name"], cfgs, j["threads"], r["kv"].get("mode"), r["kv"].get("seed")),
                                  rep_of(j, r, {"refined": d}), no_input=(kind == "refined-model-reject"))
            else:
                stats["refined:accepted"] += 1
            try:
                res = S.parse_export(r["export"])
            except Exception as e_:
                res = S.SolveResult(); res.kind = "unparsable"; res.msg = repr(e_)
            if res.kind != "ok":
                stats["VIOLATION:totality:" + res.kind] += 1
                sig = "totality:%s:%s" % (res.kind, tag)
                if sig not in seen_sig:
                    seen_sig.add(sig)
                    ctx.violation(sig, "solve did not produce a result (%s %s) for %s %s with %d threads, %s seed %s"
                                  % (res.kind, res.msg[:120], c["name"], cfgs, j["threads"], r["kv"].get("mode"), r["kv"].get("seed")), rep_of(j, r))
                continue
            recs.append({"case": c, "opts": j["opts"], "res": res, "poly": None, "oracle": None, "why": "", "job": j, "run": r})

    # ---- (ii) results: the property's own predicate, judged by the certified oracle
    groups = e2e.certify_records_grouped(ctx, recs, max_bits=ctx.pick(460, 1100), max_degree=16)
    ctx.log("oracle: %d/%d result sets have a certified equation" % (sum(len(g) for g in groups), len(recs)))
    nontrivial = set(); evaluations = 0
    gtimes = []
    # Oracle work per result set: count queries (one per distinct disc) and the coverage query.  `orc.cover` is by far the
    # most expensive call (minutes for degree 11 at 450 bits), so coverage is first decided WITHOUT it when possible:
    # all discs finite, each certified to hold >= 1 root, pairwise disjoint (exact rational test), 0 in no disc when there
    # are zero roots, and n + zero_roots = degree  ==>  the n non-zero roots (with multiplicity) all lie in the union.
    # Quick tier: at most QR distinct result sets per (input, options) are judged and at most QC oracle coverage queries per
    # input; identical result sets (same options, same discs) share their verdict.  Thorough: no caps.
    QR, QC = ctx.pick((2, 1), (10 ** 9, 10 ** 9))
    def cheap_cover(discs, ans, zr, n_ok):
        if not n_ok or any(d[2] is None for d in discs) or any(lo < 1 for lo, hi in ans): return None
        if zr > 0 and any(d[0] * d[0] + d[1] * d[1] <= d[2] * d[2] for d in discs): return None
        for a in range(len(discs)):
            for b in range(a + 1, len(discs)):
                dx = discs[a][0] - discs[b][0]; dy = discs[a][1] - discs[b][1]; rr = discs[a][2] + discs[b][2]
                if dx * dx + dy * dy <= rr * rr: return None
        return (True, [])
    def judge_group(grp):
        orc = grp[0]["oracle"]; cache = {}; out = []; t0g = time.time(); per_opts = collections.Counter(); done = {}; covers = 0
        for rec in grp:
            r = rec["res"]; discs = S.discs_of(r); n = len(discs)
            rkey = (tuple(rec["opts"]), tuple(discs))
            if rkey in done:
                out.append((rec,) + done[rkey][1:] + ("same",)); continue
            if per_opts[tuple(rec["opts"])] >= QR:
                out.append((rec, "quick-cap", "")); continue
            per_opts[tuple(rec["opts"])] += 1
            fin = [i for i in range(n) if discs[i][2] is not None]
            need = [discs[i] for i in fin if discs[i] not in cache]
            if need:
                try:
                    for d, v in zip(need, e2e.count_discs_bounds(orc, need)): cache[d] = v
                except Exception as e_:
                    out.append((rec, "oracle-error", repr(e_))); continue
            ans = [cache[discs[i]] for i in fin]
            cov = None; how = "none"
            if len(fin) == n:
                zr = r.meta.get("zero_roots", 0)
                deg = len(trim(rec["poly"])) - 1
                cov = cheap_cover(discs, ans, zr, n + zr == deg and r.meta.get("n") == n); how = "disjoint-counts"
                if cov is None and covers < QC:
                    covers += 1; how = "oracle-cover"
                    zero = [(Fr(0), Fr(0), Fr(0))] * (1 if zr > 0 else 0)
                    try:
                        orc.cover(discs + zero)
                        cov = (orc.all_covered, [k for k, u in enumerate(orc.uncovered) if u])
                    except Exception as e_:
                        cov = None
                elif cov is None: how = "quick-cap"
            item = (rec, fin, ans, cov, how)
            done[rkey] = item
            out.append(item + ("new",))
        gtimes.append((round(time.time() - t0g, 1), grp[0]["case"]["name"], len(grp), len(cache), covers))
        return out
    judged = e2e.par_map(judge_group, groups)
    ctx.log("oracle judging done; slowest groups (s, case, result sets, distinct disc queries, oracle cover queries): %s" % sorted(gtimes, reverse=True)[:4])
    for grp_out in judged:
        for item in grp_out:
            rec = item[0]; j = rec["job"]; r = rec["run"]; c = rec["case"]; res = rec["res"]
            tag = "%s:%s:j=%d" % (c["name"], "".join(j["opts"]), j["threads"])
            if item[1] == "oracle-error": stats["oracle-error"] += 1; continue
            if item[1] == "quick-cap": stats["result-set-not-judged(quick tier cap per input and options)"] += 1; continue
            _, fin, ans, cov, how, fresh = item
            stats["result-sets-judged:" + ("first-occurrence" if fresh == "new" else "identical-to-a-judged-one")] += 1
            stats["coverage-decided-by:" + how] += 1
            n = len(res.accm); zr = res.meta.get("zero_roots", 0)
            deg = len(trim(rec["poly"])) - 1
            evaluations += 1
            if n + zr != deg or res.meta.get("n") != n:
                stats["VIOLATION:count"] += 1
                ctx.violation("count:%s" % tag, "%d approximations + %d zero roots for an equation of degree %d (%s %s, %d threads, %s seed %s)"
                              % (n, zr, deg, c["name"], " ".join(j["opts"]), j["threads"], r["kv"].get("mode"), r["kv"].get("seed")), rep_of_final(j, r))
            else: stats["count:ok"] += 1
            discs = S.discs_of(res)
            for i, (lo, hi) in zip(fin, ans):
                evaluations += 1
                st = res.roots[i].status
                if hi == 0:
                    stats["VIOLATION:no-root-in-disc"] += 1
                    sig = "no-root-in-disc:%s" % tag
                    if sig not in seen_sig:
                        seen_sig.add(sig)
                        ctx.violation(sig, "returned disc %d (status %s) contains no root (certified): centre (%.17g, %.17g) radius %.3g; %s %s, %d threads, %s schedule seed %s"
                                      % (i, S.STATUS[st], float(discs[i][0]), float(discs[i][1]), float(discs[i][2]), c["name"], " ".join(j["opts"]),
                                         j["threads"], r["kv"].get("mode"), r["kv"].get("seed")), rep_of_final(j, r, {"root": i, "disc": [str(x) for x in discs[i]]}))
                elif lo >= 1:
                    stats["disc-contains-root"] += 1; nontrivial.add((c["name"], tuple(j["opts"]), j["threads"], r["kv"].get("seed"), i))
                    if st in (S.ST_ISOLATED, S.ST_APPROX) and lo >= 2:
                        stats["VIOLATION:several-roots-in-isolated-disc"] += 1
                        sig = "several-roots-in-%s-disc:%s" % (S.STATUS[st].lower(), tag)
                        if sig not in seen_sig:
                            seen_sig.add(sig)
                            ctx.violation(sig, "disc %d reported %s holds at least %d roots (certified); %s %s, %d threads, seed %s"
                                          % (i, S.STATUS[st], lo, c["name"], " ".join(j["opts"]), j["threads"], r["kv"].get("seed")), rep_of_final(j, r, {"root": i}))
                else: stats["disc-undecided"] += 1
            for i in range(n):
                if discs[i][2] is None: stats["non-finite-radius(no claim)"] += 1
            if cov is not None:
                evaluations += 1
                allc, unc = cov
                if allc: stats["all-roots-covered"] += 1
                elif unc:
                    stats["VIOLATION:root-not-covered"] += 1
                    sig = "root-not-covered:%s" % tag
                    if sig not in seen_sig:
                        seen_sig.add(sig)
                        ctx.violation(sig, "%d root(s) of %s lie in no returned disc (certified); %s, %d threads, %s seed %s"
                                      % (len(unc), c["name"], " ".join(j["opts"]), j["threads"], r["kv"].get("mode"), r["kv"].get("seed")), rep_of_final(j, r))
                else: stats["cover-undecided"] += 1
            if len(samples) < 6 and fin and (len(samples) < 3 or j["threads"] not in [s_["threads"] for s_ in samples]):
                samples.append({"case": c["name"], "class": c["cls"], "opts": j["opts"], "threads": j["threads"], "mode": r["kv"].get("mode"),
                                "seed": r["kv"].get("seed"), "decisions": r["kv"].get("nsched"), "disc0": e2e.fdisc(discs[fin[0]]),
                                "status0": S.STATUS[res.roots[fin[0]].status], "oracle_count0": list(ans[0]), "lastphase": res.meta.get("lastphase")})
    e2e.close_records(recs)
    for rec in recs:
        if rec["oracle"] is None: stats["not-judged:" + (rec["why"].split(":")[0] or "?")] += 1
    stats["distinct-results"] = len(set((rec["case"]["name"], tuple(rec["opts"]), tuple((o.re, o.im, o.rad_tok) for o in rec["res"].accm)) for rec in recs))

    # ---- (iv) lock order: regenerate LockGen.v, re-check the obligations
    edges_l = sorted(edges); same_l = sorted(same)
    changed = False
    if not ctx.replay:
        changed = write_lockgen(edges_l, same_l)
    ctx.log("lock edges written (changed=%s); re-checking proofs" % changed)
    ctx.prove()
    def search():
        # the obligation broke: a cycle in the class relation or a same-class nesting against the index order.
        # Every explored schedule already evaluated the shim's deadlock predicate; a deadlock would be in ctx.violations.
        return any(v for v in ctx.violations)
    ctx.proof_violation_if_broken(search)

    cov = {
        "evaluations": evaluations + tot["runs"] + n_mc,
        "mcluster_block_jobs_under_scheduler": dict(mstats.get("mcluster", {})),
        "distinct_nontrivial": len(nontrivial),
        "rule": "one evaluation = one predicate instance on a real execution: one complete solve under one schedule (shim verdict + model replay) "
                "or one (run, returned disc) oracle query / count identity / coverage query; distinct non-trivial = (input, options, threads, schedule, root) "
                "for which the oracle certified a root inside the returned disc",
        "schedules_run": tot["runs"], "trace_events": tot["events"], "model_labels_replayed": tot["labels"], "packets": tot["packets"],
        "job_fetches": tot["fetches"], "max_fetches_in_a_packet": tot["maxfetch"], "runs_accepted_by_model": tot["ok"], "runs_rejected_by_model": tot["rejected"],
        "result_sets_judged": sum(len(g) for g in groups), "result_sets": len(recs),
        "refined_model": {"runs_accepted": rtot["ok"], "runs_rejected": rtot["rejected"], "packets": rtot["packets"], "tasks": rtot["tasks"],
                          "instructions_replayed": rtot["instructions"], "lock_unlock_calls_matched": rtot["calls"],
                          "nzeros_excep_again_samples_compared": rtot["samples"], "value_hash_observations": rtot["hashes"],
                          "search_backtracks": rtot["backtracks"],
                          "tasks_per_body": dict(rvar), "tasks_per_body_with_one_pool_thread": dict(rvar1),
                          "calls_matched_by_kind": dict(rcalls),
                          "bodies_not_reached": [k_ for k_ in ("F", "D", "M", "SF", "SD", "SM") if rvar[k_] == 0]},
        "lock_edges": ["%s>%s" % e_ for e_ in edges_l], "same_class_nestings": ["%s:%d<%d" % s_ for s_ in same_l], "lockgen_changed": changed,
        "lock_class_histogram": dict(lock_hist),
        "histogram": dict(stats), "thread_counts": THREADS, "samples": samples,
        "class_histogram": dict(collections.Counter(j["case"]["cls"] for j in jobs)),
        "config_histogram": dict(collections.Counter(" ".join(j["opts"]) for j in jobs)),
        "trusted_base": [
            "Coq 8.16.1 kernel; C05 theorems closed under the global context except C05_workers_inclusion_invariant (stdlib real-number axioms)",
            "extraction ExtrOcamlBasic + ExtrOcamlNativeString; hand-written ocaml/worker_driver.ml (trace parser, projection to labels, "
            "LFlip/LRead/LWrite inserted when the harness saw again[i] change under the root lock, virtual root lock when the pool has one thread; "
            "refined replay: runs a task's local instructions at the event that starts the real thread's atomic block, searches the data-dependent branches "
            "and the Newton outcome so that the path ends at the thread's next call and reproduces the sampled *nzeros / *excep / again / value hash; "
            "re-tabulates the model state's function-valued fields)",
            "the transcription of the six C bodies into WorkerRefined.src_* is by hand (C text quoted beside each instruction); the lock-by-lock replay with "
            "counters and flags compared is what ties it to /repo; harness/c05_solve.c trampoline (--wrap=mps_thread_pool_assign, body recognised through nm), "
            "--wrap=mps_thread_job_queue_next, samples taken in the lock/unlock wrappers",
            "harness/vf_sched.c (its mutex/condvar model IS the pthread semantics assumed; one thread runs at a time: sequentially consistent memory, "
            "preemption only at synchronisation calls and after unlock); harness/c05_solve.c (lock classes from call sites via nm; block_mutexes emulated as semaphores)",
            "root oracle bin/cert (Properties_ORACLE.v) judges every result violation; lib/solve.py, lib/e2e.py",
            "abstract model: inner lock sequences abstracted to any well-nested sequence of <= 2n+6 operations, loop-exit tests nondeterministic; "
            "refined model: values not modelled (version counters), data-dependent tests and the Newton outcome nondeterministic, Newton atomic with respect to "
            "the protocol mutexes (its own coefficient / precision mutexes are covered by the lock-edge relation only); inclusion invariant is a separate theorem "
            "over an abstract metric, C01 assumed for Newton discs",
            "not covered: data races between synchronisation points (mpf_get_rdpe's temporary write to its source operand in link.c, unlocked reads in mps_faberth/mps_daberth), weak memory; "
            "no TSan run; the shim preempts only at pthread calls (the refined theorems quantify over preemption at every shared access, the executions do not); "
            "termination and the nzeros bound are proved for the abstract model only",
        ],
    }
    return ctx.finish("proof", cov, ["pthread semantics as implemented by the shim; preemption only at synchronisation points",
                                     "block_mutexes (mps_mcluster) behave as binary semaphores (glibc); see known finding " + SIG_XUNLOCK])


# ------------------------------------------------------------------ mps_mcluster block jobs under the scheduler
def mcluster_phase(ctx, stats):
    """The multiprecision cluster analysis splits the roots into blocks of 128 and runs one pool task per block
    (_mps_mcluster_worker); the tasks splice their sub-lists into the shared cluster under cluster->lock.  A case with
    200 discs in ONE old cluster (so that two block tasks work on the same cluster) is run through harness/c07_cluster.c
    (the C07 harness, shim build: mps_mcluster on a crafted state) under random / PCT schedules with several pool sizes.
    Predicate (the property's own: no root without an owner): the run ends (no deadlock), every root 0..n-1 is in exactly
    one cluster of the new clusterisation, the list lengths agree with cluster->n (`bad=0`), and the partition is the set of
    connected components of the implementation's own touch matrix, whatever the schedule."""
    hs = ctx.compile_harness(["vf_sched.c", "c07_cluster.c"], "c05_mcluster_shim", mode="shimsan")
    n, G = 200, 10
    def case_line(th):
        toks = ["mc", "m", str(n), str(n), str(th), "64", ",".join(str(k) for k in range(n))]
        for i in range(n): toks += ["%d 0" % (100 * (i % G)), "0 0", "1 0", "1 0"]
        return " ".join(toks) + "\n"
    if ctx.replay:
        rp = json.load(open(ctx.replay))
        if rp.get("kind") != "mcluster": return
        jobs = [(rp["threads"], ["--replay", rp["schedule"]])]
    else:
        nr, npct = ctx.pick((30, 20), (300, 200))
        jobs = [(th, ["--random", str(nr), "--pct", str(npct), "--depth", "3", "--seed", str(ctx.seed * 100 + th)]) for th in ctx.pick((2, 4, 8), (2, 3, 4, 8, 16))]
    def one(job):
        th, args = job
        return vf.sh([hs] + args, input=case_line(th), timeout=900, env=ctx.san_env())
    with cf.ThreadPoolExecutor(max_workers=4) as ex: outs = list(ex.map(one, jobs))
    st = stats.setdefault("mcluster", collections.Counter())
    for (th, args), (rc, o, e) in zip(jobs, outs):
        lines = o.splitlines(); T = None; cur = None; expect = None
        for ln in lines:
            if ln.startswith("mc T="):
                T = ln.split(" ")[1][2:]
                par = list(range(n))
                def find(a):
                    while par[a] != a: par[a] = par[par[a]]; a = par[a]
                    return a
                for a in range(n):
                    for b in range(a + 1, n):
                        if T[a * n + b] == "1" or T[b * n + a] == "1": par[find(a)] = find(b)
                comp = collections.defaultdict(list)
                for a in range(n): comp[find(a)].append(a)
                expect = sorted(sorted(v) for v in comp.values())
            elif ln.startswith("R new="):
                f = ln.split(" "); cur = (f[1][4:], f[2][4:])
            elif ln.startswith("# run "):
                f = ln.split(" "); status = int(f[4]); what = f[12]; sched = f[14] if len(f) > 14 else "-"
                st["schedules:threads=%d" % th] += 1
                rep = {"kind": "mcluster", "threads": th, "schedule": sched, "n": n, "case": "200 discs, centres 100*(i mod 10), radius 1, one old cluster",
                       "how": "harness/c07_cluster.c (shim build)  --replay <schedule>  < case line   (or ./check C05 --replay <this file>)"}
                if status != 0:
                    st["VIOLATION:" + STATUS_NAME.get(status, str(status))] += 1
                    ctx.violation("mcluster:%s:n%d/t%d" % (STATUS_NAME.get(status, str(status)), n, th),
                                  "mps_mcluster under the scheduler shim: %s (%s) with %d pool threads" % (STATUS_NAME.get(status, str(status)), what, th), rep)
                elif cur is None or expect is None:
                    ctx.violation("mcluster:no-result:n%d/t%d" % (n, th), "run finished without printing a clusterisation", rep)
                else:
                    new = [[int(k) for k in c.split(",")] if c else [] for c in cur[0].split(";")] if cur[0] not in ("", "-") else []
                    flat = sorted(k for c in new for k in c)
                    if flat != list(range(n)):
                        missing = sorted(set(range(n)) - set(flat))
                        st["VIOLATION:root-in-no-cluster"] += 1
                        ctx.violation("mcluster:root-in-no-cluster:n%d/t%d" % (n, th),
                                      "after mps_mcluster %d of %d roots are in no cluster (first: %s) / %d listed twice: a root without an owner; %d pool threads"
                                      % (len(missing), n, missing[:6], len(flat) - len(set(flat)), th), rep)
                    elif cur[1] != "0" or sorted(sorted(c) for c in new if c) != expect:
                        st["VIOLATION:schedule-dependent-clusters"] += 1
                        ctx.violation("mcluster:components:n%d/t%d" % (n, th), "the clusterisation is not the set of components of the touch matrix (bad=%s, %d clusters, expected %d); %d pool threads"
                                      % (cur[1], len(new), len(expect), th), rep)
                    else:
                        st["ok"] += 1
                cur = None
        if T is None: raise vf.InfraError("c07_cluster (shim) gave no header: rc=%s %s" % (rc, (e or "")[-500:]))
    return sum(v for k_, v in st.items() if k_.startswith("schedules:"))


def rep_of_final(j, r, extra=None):
    d = {"case": j["case"]["name"], "class": j["case"]["cls"], "text": j["case"]["text"], "opts": j["opts"], "threads": j["threads"],
         "sched": j["sched"], "mode": r["kv"].get("mode"), "seed": r["kv"].get("seed"), "schedule": r["kv"].get("sched", "-"), "pool0": j.get("pool0")}
    if extra: d.update(extra)
    return d
