"""C16, function-level stage: states written into a context (harness/c16_access.c), every public accessor called,
outputs compared token by token with the extracted as-coded model (bin/access, Access/AccessCoded.v) and every handed-out
(value, radius) pair judged against the stored pair by the property's predicate acc_ok in exact integer arithmetic
(and by the extracted acc_ok, bin/accq, on rescaled integers when the numbers are small enough for unary-free speed).

A number is a dyadic (m, e) = m * 2^e with Python integers; 'inf' / 'nan' for non-finite doubles."""
import struct, collections, json

PREC_CHOICES = [53, 64, 65, 128, 129, 192, 256, 320, 1024]
PHN = {"f": "float", "d": "dpe", "m": "mp"}


# ---------------------------------------------------------------- exact readers
def dbl_hex(x):
    return "%016x" % struct.unpack("<Q", struct.pack("<d", x))[0]


def dy_of_dhex(h):
    u = int(h, 16)
    s = -1 if u >> 63 else 1
    e = (u >> 52) & 0x7FF
    m = u & ((1 << 52) - 1)
    if e == 0x7FF:
        return "nan" if m else "inf"
    if e == 0:
        return (s * m, -1074)
    return (s * (m | (1 << 52)), e - 1075)


def dy_of_rdpe(tok):
    h, e = tok.split(":")
    d = dy_of_dhex(h)
    if isinstance(d, str): return d
    if d[0] == 0: return (0, 0)
    return (d[0], d[1] + int(e))


def dy_of_mpf(tok):
    p, m, e = tok.split(":")
    return int(p), (int(m, 16), 64 * int(e))


def parse_mpc(tok):
    a, b = tok.split(",")
    pa, va = dy_of_mpf(a); pb, vb = dy_of_mpf(b)
    return (pa, pb), (va, vb)


def parse_approx(tok):
    f = tok.split(";")
    fre, fim = f[0].split(",")
    dre, dim = f[1].split(",")
    precs, mv = parse_mpc(f[2])
    return {"fvalue": (dy_of_dhex(fre), dy_of_dhex(fim)), "dvalue": (dy_of_rdpe(dre), dy_of_rdpe(dim)), "mvalue": mv, "mprec": precs,
            "frad": dy_of_dhex(f[3]), "drad": dy_of_rdpe(f[4]), "rest": f[5:]}


def parse_out(line):
    toks = line.split()
    d = {"id": toks[0]}
    for t in toks[1:]:
        k, v = t.split("=", 1)
        d[k] = v
    return d


# ---------------------------------------------------------------- the predicate
def acc_ok_exact(ref, out):
    """ref = ((re, im), rad), out likewise, all finite dyadics: |z_out - z_ref| + r_ref <= r_out.
    Returns (verdict, scaled integers (zmr, zmi, rm, zar, zai, ra), spread in bits)."""
    (zr, zi), rm = ref
    (ar, ai), ra = out
    nums = [zr, zi, rm, ar, ai, ra]
    emin = min(x[1] for x in nums)
    ints = [x[0] << (x[1] - emin) for x in nums]
    zmr, zmi, irm, zar, zai, ira = ints
    spread = max(v.bit_length() for v in ints)
    if ira < irm:
        return False, ints, spread
    dr, di, t = zar - zmr, zai - zmi, ira - irm
    return dr * dr + di * di <= t * t, ints, spread


# ---------------------------------------------------------------- generators
def rand_mant53(rng, kind):
    """integer in [2^52, 2^53)"""
    if kind == "ones": return (1 << 53) - 1
    if kind == "pow2": return 1 << 52
    if kind == "pow2+1": return (1 << 52) + 1
    return rng.getrandbits(52) | (1 << 52)


def dpe_tok(m53, sign, E):
    """DPE number sign * m53 * 2^-53 * 2^E (mantissa in [1/2, 1)); m53 = 0 gives zero"""
    if m53 == 0: return "%s 0" % dbl_hex(0.0)
    return "%s %d" % (dbl_hex(sign * m53 * 2.0 ** -53), E)


def dbl_from(m53, sign, E, rng):
    """a finite double about sign * m53 * 2^(E - 53), E clamped into the double range (ldexp rounds in the subnormal range)"""
    import math
    if m53 == 0: return 0.0
    return sign * math.ldexp(float(m53), max(-1080, min(1024, E)) - 53)


VAL_EXP = [("normal", lambda r: r.randint(-40, 40)), ("normal", lambda r: r.randint(-300, 300)),
           ("near-dbl-max", lambda r: r.randint(1018, 1024)), ("above-dbl-max", lambda r: r.randint(1025, 1032)),
           ("huge", lambda r: r.choice([1100, 2000, 4090, 4096, 4097, 4100, 5000])),
           ("near-dbl-min", lambda r: r.randint(-1026, -1018)), ("subnormal", lambda r: r.randint(-1073, -1023)),
           ("near-2^-1074", lambda r: r.randint(-1078, -1071)),
           ("below-double", lambda r: r.choice([-1080, -1100, -1200, -2000, -4090, -4096, -4097, -4100, -5000]))]
RAD_REL = [0, 1, 8, 30, 40, 50, 51, 52, 53, 54, 55, 60, 64, 100, 128, 200, 500, 1000, 1100]


def gen_mp_component(rng, P, E, pattern):
    """(signed man, exp in limbs) of about 2^E with at most P+1 limbs"""
    if pattern == "zero": return 0, 0
    n = {"one-limb": 1, "two-limb": min(2, P + 1), "full": P + 1, "prec": P}.get(pattern, rng.randint(1, P + 1))
    topbits = rng.randint(1, 64)
    nb = 64 * (n - 1) + topbits
    if pattern == "ones":
        man = (1 << nb) - 1
    elif pattern == "exact53":
        man = (rng.getrandbits(52) | (1 << 52)) << max(0, nb - 53) if nb >= 53 else (rng.getrandbits(nb - 1) | (1 << (nb - 1))) if nb > 1 else 1
    elif pattern == "53+lowbit":
        man = ((rng.getrandbits(52) | (1 << 52)) << max(0, nb - 53)) | 1 if nb >= 54 else (1 << (nb - 1)) | 1
    elif pattern == "low-limb-zero" and n >= 2:
        man = ((rng.getrandbits(nb - 64 - 1) | (1 << (nb - 64 - 1))) << 64) if nb - 64 >= 2 else (1 << (nb - 1))
    else:
        man = rng.getrandbits(nb - 1) | (1 << (nb - 1)) if nb > 1 else 1
    if man.bit_length() > 64 * (n - 1) + 64 or man.bit_length() <= 64 * (n - 1):
        man = (1 << (nb - 1)) | (man & ((1 << (nb - 1)) - 1))
    exp = (E - man.bit_length()) // 64
    return (-man if rng.random() < 0.4 else man), exp


MP_PATTERNS = ["random", "random", "random", "full", "full", "ones", "exact53", "53+lowbit", "one-limb", "two-limb", "prec", "low-limb-zero"]


def gen_case(rng, k):
    ph = "fdm"[k % 3] if rng.random() < 0.9 else "m"
    cls, fE = rng.choice(VAL_EXP)
    if ph == "f" and cls in ("above-dbl-max", "huge", "below-double"):
        cls, fE = VAL_EXP[rng.randint(0, 1)]
    E = fE(rng)
    shape = rng.choice(["complex", "complex", "complex", "real", "imag", "zero"] if rng.random() < 0.3 else ["complex"])
    Eim = E + rng.choice([0, 0, -1, 1, -10, 10, -53, -60, 53, -200]) if shape == "complex" else E
    mprec = rng.choice(PREC_CHOICES)
    P = (max(53, mprec) + 127) // 64
    pc = rng.choice([0, 2, 53, 64, 65, 128, max(53, mprec - 64), mprec, mprec + 1, mprec + 64, 2 * mprec])
    mpwp = rng.choice([53, 64, 128, 256])
    restore = 1 if rng.random() < 0.4 else 0
    dpm = rng.choice([0, mprec, mprec, 53, mprec + 64, 64 * P - 64]) if ph == "m" else rng.choice([0, 53, 64, 128, mprec])
    relk = rng.choice(RAD_REL)
    radkind = rng.choice(["rel", "rel", "rel", "zero", "abs-tiny", "abs-dblmin", "large"])
    rm53 = rand_mant53(rng, rng.choice(["rand", "rand", "pow2", "ones"]))
    Etop = max(E, Eim) if shape == "complex" else E
    if radkind == "zero": rm53, RE = 0, 0
    elif radkind == "rel": RE = Etop - relk
    elif radkind == "abs-tiny": RE = rng.choice([-1070, -1073, -1074, -1075, -1076, -1080, -1100, -1200, -4095, -4096, -4097, -4200])
    elif radkind == "abs-dblmin": RE = rng.randint(-1026, -1018)
    else: RE = Etop + rng.choice([1, 10, 100]) if rng.random() < 0.7 else rng.choice([1020, 1024, 1025, 1030, 4096, 4097])
    sgn = lambda: -1 if rng.random() < 0.4 else 1
    mk = rng.choice(["rand", "rand", "rand", "ones", "pow2", "pow2+1"])
    zre = 0 if shape in ("imag", "zero") else rand_mant53(rng, mk)
    zim = 0 if shape in ("real", "zero") else rand_mant53(rng, rng.choice(["rand", "rand", "ones", "pow2"]))
    # stale junk for the fields the phase does not own
    jE = rng.randint(-20, 20)
    junk_f = (dbl_from(rand_mant53(rng, "rand"), sgn(), jE, rng), dbl_from(rand_mant53(rng, "rand"), sgn(), jE - 1, rng), float(rng.choice([0.0, 1e-8, 3.5])))
    junk_d = (dpe_tok(rand_mant53(rng, "rand"), sgn(), jE + 3), dpe_tok(rand_mant53(rng, "rand"), sgn(), jE - 2))
    junk_drad = dpe_tok(rand_mant53(rng, "rand"), 1, jE - 30)
    junk_m = [gen_mp_component(rng, P, jE, "random"), gen_mp_component(rng, P, jE - 3, "random")]
    f = junk_f; d = junk_d; drad = junk_drad; m = junk_m; frad = junk_f[2]
    if ph == "f":
        f = (dbl_from(zre, sgn(), E, rng), dbl_from(zim, sgn(), Eim, rng))
        if rm53 == 0: frad = 0.0
        else: frad = dbl_from(rm53, 1, min(RE, 1024), rng)
        if frad == float("inf"): frad = 1.7976931348623157e308
    elif ph == "d":
        d = (dpe_tok(zre, sgn(), E), dpe_tok(zim, sgn(), Eim))
        drad = dpe_tok(rm53, 1, RE)
    else:
        pat = rng.choice(MP_PATTERNS)
        m = [gen_mp_component(rng, P, E, "zero" if zre == 0 else pat), gen_mp_component(rng, P, Eim, "zero" if zim == 0 else rng.choice([pat, "random"]))]
        drad = dpe_tok(rm53, 1, RE)
    wp = rng.choice([53, 64, 128, mprec, 2 * mprec])
    toks = ["a%d" % k, ph, str(dpm), str(restore), str(pc), str(mpwp),
            dbl_hex(f[0]), dbl_hex(f[1]), dbl_hex(frad), d[0], d[1], drad,
            str(mprec), "%x" % m[0][0] if m[0][0] >= 0 else "-%x" % -m[0][0], str(m[0][1]),
            "%x" % m[1][0] if m[1][0] >= 0 else "-%x" % -m[1][0], str(m[1][1]),
            str(wp), str(rng.randint(0, 8)), str(rng.randint(0, 2)), str(rng.randint(0, 2)), str(rng.randint(0, 1))]
    line = " ".join(toks)
    raw_lowered = bool(restore and dpm != 0 and ph == "m" and any(((abs(c[0]).bit_length() + 63) // 64) > (max(53, dpm) + 127) // 64 + 1 for c in m))
    return {"id": toks[0], "line": line, "ph": ph, "class": cls, "shape": shape, "radkind": radkind + (":2^-%d" % relk if radkind == "rel" else ""),
            "mprec": mprec, "pc": pc, "raw_lowered": raw_lowered, "dpm": dpm, "restore": restore}


def witness_cases():
    """the concrete states of the Coq file: C16_get_approximation_dvalue_refuted (mvalue = 2^64 + 1 on 128 bits, drad = 0) and
    C16_get_roots_m_needs_wf (2^192 + 1 written at 192 bits, then mps_restore_data with data_prec_max = 64)"""
    z = "0000000000000000"
    def line(i, dpm, restore, mprec, man):
        return " ".join([i, "m", str(dpm), str(restore), "64", "128", z, z, z, z, "0", z, "0", z, "0", str(mprec), man, "0", "0", "0", "128", "0", "0", "0", "1"])
    w = []
    for i, dpm, restore, mprec, man, raw in (("w_dvalue", 0, 0, 128, "10000000000000001", False),
                                             ("w_needs_wf", 64, 1, 192, "1" + "0" * 47 + "1", True)):
        w.append({"id": i, "line": line(i, dpm, restore, mprec, man), "ph": "m", "class": "witness", "shape": "real", "radkind": "zero",
                  "mprec": mprec, "pc": 64, "raw_lowered": raw, "dpm": dpm, "restore": restore})
    return w


def stored_ref(ph, S):
    """the stored (value, radius) of the phase, from the S section (state after mps_copy_roots)"""
    if ph == "f": return S["fvalue"], S["frad"]
    if ph == "d": return S["dvalue"], S["drad"]
    return S["mvalue"], S["drad"]


def pairs_of(ph, o):
    """(accessor name, value pair, radius) for everything handed out; o = parsed harness output"""
    D = o["D"].split(";"); dv = D[0].split(",")
    out = [("get_roots_d", (dy_of_dhex(dv[0]), dy_of_dhex(dv[1])), dy_of_dhex(D[1]))]
    for key, name in (("M0", "get_roots_m(library storage)"), ("M1", "get_roots_m(caller storage)")):
        mv, rd = o[key].split(";")
        out.append((name, parse_mpc(mv)[1], dy_of_rdpe(rd)))
    for key, name in (("A", "get_approximations"), ("GA", "approximation_get"), ("C", "approximation_copy")):
        a = parse_approx(o[key])
        out.append((name + ".mvalue+drad", a["mvalue"], a["drad"]))
        if key != "C":
            out.append((name + ".fvalue+frad", a["fvalue"], a["frad"]))
            out.append((name + ".dvalue+drad", a["dvalue"], a["drad"]))
    g = parse_approx(o["GR"])
    out.append(("approximation_get(context root).mvalue+drad", g["mvalue"], g["drad"]))
    if ph == "f": out.append(("approximation_get(context root).fvalue+frad", g["fvalue"], g["frad"]))
    if ph == "d": out.append(("approximation_get(context root).dvalue+drad", g["dvalue"], g["drad"]))
    return out


SECTIONS = ["S", "D", "M0", "M1", "A", "GA", "GR", "C", "XD", "XA"]


def judge_case(c, o):
    """-> list of (kind, accessor name, detail) with kind in ok | fails | no-claim | nonfinite-value | spread"""
    S = parse_approx(o["S"])
    zref, rref = stored_ref(c["ph"], S)
    res = []
    if any(isinstance(x, str) for x in zref) or isinstance(rref, str):
        return [("bad-state", "stored", None)]
    for name, z, r in pairs_of(c["ph"], o):
        if isinstance(r, str):
            res.append(("no-claim(radius %s)" % r, name, None)); continue
        if any(isinstance(x, str) for x in z):
            res.append(("nonfinite-value", name, None)); continue
        ok, ints, spread = acc_ok_exact((zref, rref), (z, r))
        res.append(("ok" if ok else "fails", name, (ints, spread, z, r)))
    return res


def run_stage(ctx, rng, binary, env, vf, ncases, replay_line=None):
    """returns (stats Counter, samples, evaluations, distinct set)"""
    stats = collections.Counter(); samples = []; distinct = set()
    if replay_line is not None:
        cases = [{"id": replay_line.split()[0], "line": replay_line, "ph": replay_line.split()[1], "class": "replay", "shape": "replay",
                  "radkind": "replay", "mprec": int(replay_line.split()[15]), "pc": int(replay_line.split()[4]), "raw_lowered": False}]
    else:
        cases = witness_cases() + [gen_case(rng, k) for k in range(ncases)]
    text = "\n".join(c["line"] for c in cases) + "\n"
    rc, out, err = vf.sh([binary], input=text, timeout=900, env=env)
    hl = [l for l in out.split("\n") if l.strip()]
    if rc != 0 or len(hl) != len(cases):
        k = min(len(hl), len(cases) - 1)
        ctx.violation("access-harness:crash", "an accessor crashed or tripped a sanitizer on a hand-written state (rc %d) at case %s: %s"
                      % (rc, cases[k]["id"], err[-400:]), {"stage": "access", "line": cases[k]["line"], "stderr": err[-2000:]})
        stats["harness-crash"] += 1
        cases = cases[:len(hl)]
    ml = ctx.run_model_lines("access", [c["line"] for c in cases], workers=4)
    evaluations = 0; accq_lines = []; accq_keys = []; mismatches = []
    for c, a, b in zip(cases, hl, ml):
        ph = PHN[c["ph"]]
        if " ERROR" in a or " ERROR" in b:
            stats["generator-error"] += 1; continue
        oa, ob = parse_out(a), parse_out(b)
        evaluations += 1
        stats["phase:" + ph] += 1; stats["value:" + c["class"]] += 1; stats["radius:" + c["radkind"]] += 1
        stats["mprec:%d" % c["mprec"]] += 1
        stats["caller-precision:%s" % ("none" if c["pc"] == 0 else "lower" if c["pc"] < c["mprec"] else "equal" if c["pc"] == c["mprec"] else "higher")] += 1
        stats["shape:" + c["shape"]] += 1
        diff = [k for k in SECTIONS if oa.get(k) != ob.get(k)]
        failed_here = False
        if c["id"] == "w_dvalue":
            kinds = dict((n, k) for k, n, _ in judge_case(c, oa))
            stats["witness:C16_get_approximation_dvalue_refuted:" + ("reproduced" if kinds.get("get_approximations.dvalue+drad") == "fails" and not diff else "NOT-reproduced")] += 1
        if c["id"] == "w_needs_wf":
            m0 = parse_mpc(oa["M0"].split(";")[0])[1][0]
            stats["witness:C16_get_roots_m_needs_wf:" + ("reproduced" if m0 == (1, 64 * 3) and not diff else "NOT-reproduced")] += 1
        if c["raw_lowered"]:
            stats["unjudged:raw-precision-below-size(outside wf)"] += 1
        else:
            for kind, name, det in judge_case(c, oa):
                stats["%s:%s" % (kind, name)] += 1
                if kind == "ok":
                    distinct.add((c["id"], name))
                if kind in ("ok", "fails") and det[1] <= 2600:
                    accq_lines.append("Q " + " ".join("%d/1" % v for v in det[0])); accq_keys.append((c, name, kind))
                if kind == "fails" or kind == "nonfinite-value":
                    failed_here = True
                    ints, spread, z, r = det if det else (None, None, None, None)
                    what = ("%s hands out a pair that is not an inclusion disc of the stored approximation (phase %s, stored precision %d bits, caller precision %d): "
                            "|value - stored value| + stored radius > returned radius" % (name, ph, c["mprec"], c["pc"])) if kind == "fails" else \
                           ("%s hands out a non-finite value with a finite radius (phase %s)" % (name, ph))
                    # the getter returns the object's fields: same call site as the known dvalue-with-multiprecision-radius finding
                    sig = "no-root-in-disc:get_approximations.dvalue+drad:mp" if (c["ph"] == "m" and name in ("get_approximations.dvalue+drad", "approximation_get.dvalue+drad") and kind == "fails") \
                        else "acc_ok-fails:%s:%s" % (name, ph)
                    ctx.violation(sig, what + "; case line: " + c["line"][:300],
                                  {"stage": "access", "line": c["line"], "accessor": name, "phase": ph,
                                   "returned": [str(z), str(r)] if z else None, "harness_output": a[:3000]})
                    if len(samples) < 8:
                        samples.append({"case": c["id"], "phase": ph, "accessor": name, "verdict": kind, "value_class": c["class"], "radius": c["radkind"]})
        if diff:
            stats["model-differs:" + ",".join(diff)] += 1
            mismatches.append((c, diff, a, b, failed_here))
        elif len(samples) < 4:
            samples.append({"case": c["id"], "phase": ph, "value_class": c["class"], "radius": c["radkind"], "mprec": c["mprec"], "caller_prec": c["pc"],
                            "get_roots_d": oa["D"], "model_equal": True})
    # the extracted predicate on the same (rescaled to integers) pairs
    if accq_lines:
        outl = ctx.run_model_lines("accq", accq_lines, workers=4)
        for ln, (c, name, kind) in zip(outl, accq_keys):
            ok = ln.split()[0]
            stats["extracted-acc_ok=%s" % ok] += 1
            if (ok == "1") != (kind == "ok"):
                raise vf.InfraError("extracted acc_ok disagrees with the integer evaluation on %s %s" % (c["id"], name))
    # model != implementation without a failing predicate: broken correspondence
    unexplained = [m for m in mismatches if not m[4]]
    if mismatches and not any(m[4] for m in mismatches):
        c, diff, a, b, _ = mismatches[0]
        ctx.violation("correspondence:access-model:" + ",".join(diff),
                      "the as-coded accessor model (Access/AccessCoded.v) and the library differ in section(s) %s on %d of %d states although every handed-out pair still satisfies the predicate; first: %s"
                      % (",".join(diff), len(mismatches), len(cases), c["line"][:200]),
                      {"stage": "access", "line": c["line"], "harness": a[:3000], "model": b[:3000]}, no_input=True)
    elif unexplained:
        stats["model-differs-on-other-cases-too"] = len(unexplained)
    return stats, samples, evaluations, distinct
