"""Reader of src/libmps/monomial/tokenizer.l -> Coq data (coq/Inline/Gen/LexerGen.v).

What is read: the rules section of the flex file, in file order: every pattern as a regular expression over
bytes (character classes as sorted, merged code ranges; `.` = every byte but newline; `"..."`, `\\c`, `[c]` all
give the same single-character class, so that re-spelling a literal stays quiet while a changed language does
not) and a classification of its action:
    AReturn "NAME" keeps   `return NAME;`  (keeps = the action first stores strdup (yytext) in *yylval)
    AChar                  `return (unsigned char) yytext[0];`
    ASkip                  `;` / empty / `{}`
    AEcho                  `ECHO;`
    AOther "<text>"        anything else (the Coq obligation lexer_gen = expected_lexer then fails)
Name definitions of the first section are expanded ({NAME}).  Everything this reader does not understand
(start conditions, trailing context, anchors, case-insensitive scanners, code lines in the rules section)
raises ValueError; the caller turns that into Coq text that does not type-check, i.e. a failed obligation.
"""
import re

POSIX = {
    "digit": [(48, 57)], "upper": [(65, 90)], "lower": [(97, 122)], "alpha": [(65, 90), (97, 122)],
    "alnum": [(48, 57), (65, 90), (97, 122)], "xdigit": [(48, 57), (65, 70), (97, 102)],
    "blank": [(9, 9), (32, 32)], "space": [(9, 13), (32, 32)],
}
ESC = {"n": 10, "t": 9, "r": 13, "f": 12, "v": 11, "a": 7, "b": 8}


def norm_ranges(rs):
    rs = sorted(rs)
    out = []
    for lo, hi in rs:
        if lo > hi: raise ValueError("empty range in class")
        if out and lo <= out[-1][1] + 1:
            out[-1] = (out[-1][0], max(out[-1][1], hi))
        else:
            out.append((lo, hi))
    return tuple(out)


def cls(neg, rs):
    """a one-byte class in canonical form: positive, sorted, merged ranges within 0..255 (so that `.|\\n`, `[^\\n]|\\n`
    and `[\\x00-\\xff]` are the same data)"""
    rs = norm_ranges([(max(0, lo), min(255, hi)) for lo, hi in rs if lo <= 255])
    if neg:
        out, nxt = [], 0
        for lo, hi in rs:
            if nxt < lo: out.append((nxt, lo - 1))
            nxt = hi + 1
        if nxt <= 255: out.append((nxt, 255))
        rs = tuple(out)
    return ("cls", False, rs)
def chr_(c): return cls(False, [(c, c)])


class P:
    """recursive-descent parser of one flex pattern"""

    def __init__(self, text, defs):
        self.t, self.i, self.defs = text, 0, defs

    def peek(self): return self.t[self.i] if self.i < len(self.t) else None

    def eat(self):
        c = self.t[self.i]; self.i += 1; return c

    def escape(self):
        """after a backslash -> byte code"""
        if self.peek() is None: raise ValueError("dangling backslash")
        c = self.eat()
        if c in ESC: return ESC[c]
        if c == "x":
            m = re.match(r"[0-9a-fA-F]{1,2}", self.t[self.i:])
            if not m: raise ValueError("bad \\x escape")
            self.i += len(m.group(0)); return int(m.group(0), 16)
        if c in "01234567":
            m = re.match(r"[0-7]{0,2}", self.t[self.i:])
            self.i += len(m.group(0)); return int(c + m.group(0), 8) & 255
        return ord(c)

    def alt(self):
        parts = [self.cat()]
        while self.peek() == "|":
            self.eat(); parts.append(self.cat())
        r = parts[-1]
        for p in reversed(parts[:-1]):
            # an alternative of one-byte classes is a one-byte class
            r = cls(False, list(p[2]) + list(r[2])) if (p[0] == "cls" and r[0] == "cls") else ("alt", p, r)
        return r

    def cat(self):
        parts = []
        while self.peek() is not None and self.peek() not in "|)":
            parts.append(self.rep())
        if not parts: return ("eps",)
        r = parts[-1]
        for p in reversed(parts[:-1]): r = ("cat", p, r)
        return r

    def rep(self):
        a = self.atom()
        while self.peek() is not None and self.peek() in "*+?{":
            c = self.peek()
            if c == "{":
                m = re.match(r"\{(\d+)(,(\d*))?\}", self.t[self.i:])
                if not m: break                       # a {NAME} atom follows
                self.i += len(m.group(0))
                lo = int(m.group(1))
                hi = lo if m.group(2) is None else (None if m.group(3) == "" else int(m.group(3)))
                parts = [a] * lo
                if hi is None: parts.append(("star", a))
                else:
                    if hi < lo: raise ValueError("bad repetition")
                    parts += [("opt", a)] * (hi - lo)
                if not parts: a = ("eps",)
                else:
                    r = parts[-1]
                    for p in reversed(parts[:-1]): r = ("cat", p, r)
                    a = r
                continue
            self.eat()
            a = ({"*": "star", "+": "plus", "?": "opt"}[c], a)
        return a

    def atom(self):
        c = self.eat()
        if c == "(":
            if self.peek() == "?": raise ValueError("(?...) groups are not supported")
            r = self.alt()
            if self.peek() != ")": raise ValueError("unbalanced parenthesis")
            self.eat(); return r
        if c == "[": return self.klass()
        if c == '"':
            cs = []
            while True:
                if self.peek() is None: raise ValueError("unterminated string")
                d = self.eat()
                if d == '"': break
                cs.append(self.escape() if d == "\\" else ord(d))
            if not cs: return ("eps",)
            r = chr_(cs[-1])
            for x in reversed(cs[:-1]): r = ("cat", chr_(x), r)
            return r
        if c == ".": return cls(True, [(10, 10)])
        if c == "\\": return chr_(self.escape())
        if c == "{":
            m = re.match(r"([A-Za-z_][\w-]*)\}", self.t[self.i:])
            if not m or m.group(1) not in self.defs: raise ValueError("unknown name in braces")
            self.i += len(m.group(0))
            return P(self.defs[m.group(1)], self.defs).whole()
        if c in "^$/<>": raise ValueError("anchors, trailing context and start conditions are not supported: %r" % c)
        if c in "*+?)|": raise ValueError("misplaced %r" % c)
        if ord(c) > 255: raise ValueError("non-byte character")
        return chr_(ord(c))

    def klass(self):
        neg = False
        if self.peek() == "^": self.eat(); neg = True
        rs, first = [], True
        while True:
            if self.peek() is None: raise ValueError("unterminated class")
            c = self.eat()
            if c == "]" and not first: break
            first = False
            if c == "[" and self.peek() == ":":
                m = re.match(r":(\^?)([a-z]+):\]", self.t[self.i:])
                if not m or m.group(2) not in POSIX or m.group(1): raise ValueError("unsupported POSIX class")
                self.i += len(m.group(0)); rs += POSIX[m.group(2)]; continue
            lo = self.escape() if c == "\\" else ord(c)
            if self.peek() == "-" and self.i + 1 < len(self.t) and self.t[self.i + 1] != "]":
                self.eat(); d = self.eat()
                hi = self.escape() if d == "\\" else ord(d)
                rs.append((lo, hi))
            else:
                rs.append((lo, lo))
        return cls(neg, rs)

    def whole(self):
        r = self.alt()
        if self.i != len(self.t): raise ValueError("trailing %r in pattern" % self.t[self.i:])
        return r


def split_pattern(line):
    """the pattern is the text up to the first blank outside [...] and "..." -> (pattern, rest)"""
    i, n = 0, len(line)
    in_cls = in_str = False
    while i < n:
        c = line[i]
        if c == "\\": i += 2; continue
        if in_cls:
            if c == "]": in_cls = False
        elif in_str:
            if c == '"': in_str = False
        elif c == "[":
            in_cls = True
            if i + 1 < n and line[i + 1] == "^": i += 1
            if i + 1 < n and line[i + 1] == "]": i += 1
        elif c == '"': in_str = True
        elif c in " \t": break
        i += 1
    return line[:i], line[i:]


def classify(action):
    a = re.sub(r"/\*.*?\*/", " ", action, flags=re.S)
    a = re.sub(r"//[^\n]*", " ", a)
    a = " ".join(a.split())
    while a.startswith("{") and a.endswith("}"): a = a[1:-1].strip()
    if a in ("", ";"): return ("skip",)
    if re.fullmatch(r"ECHO\s*;?", a): return ("echo",)
    if re.fullmatch(r"return\s*\(\s*unsigned\s+char\s*\)\s*(yytext\s*\[\s*0\s*\]|\*\s*yytext)\s*;", a): return ("char",)
    m = re.fullmatch(r"(\*\s*yylval\s*=\s*(?:\([^()]*\))?\s*strdup\s*\(\s*yytext\s*\)\s*;\s*)?return\s+([A-Za-z_]\w*)\s*;", a)
    if m: return ("return", m.group(2), m.group(1) is not None)
    return ("other", a)


def read_lexer(text):
    """-> list of (regex, action)"""
    lines = text.split("\n")
    seps = [k for k, l in enumerate(lines) if l.rstrip() == "%%"]
    if not seps: raise ValueError("no %% separator")
    decl = lines[:seps[0]]
    rules = lines[seps[0] + 1:(seps[1] if len(seps) > 1 else len(lines))]
    # first section: options, %{ %} blocks, name definitions
    defs, k = {}, 0
    while k < len(decl):
        l = decl[k]
        if l.startswith("%{"):
            while k < len(decl) and not decl[k].startswith("%}"): k += 1
            k += 1; continue
        if l.startswith("%option"):
            if re.search(r"case-?insensitive|caseless|\bicase\b", l): raise ValueError("case-insensitive scanner")
        elif re.match(r"%[sx]\b", l): raise ValueError("start conditions are not supported")
        elif l.startswith("%"): pass
        elif l.strip() == "" or l[0] in " \t" or l.startswith("/*"): pass
        else:
            m = re.match(r"([A-Za-z_][\w-]*)\s+(.*\S)\s*$", l)
            if not m: raise ValueError("definition line not understood: %r" % l)
            defs[m.group(1)] = m.group(2)
        k += 1
    out, pending, k = [], [], 0
    while k < len(rules):
        l = rules[k]; k += 1
        if l.strip() == "": continue
        if l[0] in " \t" or l.startswith("%{"): raise ValueError("code line in the rules section: %r" % l)
        if l[0] == "<": raise ValueError("start conditions are not supported")
        pat, rest = split_pattern(l)
        act = rest.strip()
        if act.startswith("{"):
            depth = act.count("{") - act.count("}")
            while depth > 0:
                if k >= len(rules): raise ValueError("unterminated action block")
                act += "\n" + rules[k]; depth += rules[k].count("{") - rules[k].count("}"); k += 1
        rx = P(pat, defs).whole()
        if act == "|":
            pending.append(rx); continue
        a = classify(act)
        for p in pending: out.append((p, a))
        pending = []
        out.append((rx, a))
    if pending: raise ValueError("'|' action without a following rule")
    if not out: raise ValueError("no rules")
    return out


def rx_coq(r):
    k = r[0]
    if k == "eps": return "REps"
    if k == "cls": return "(RCls %s [%s])" % ("true" if r[1] else "false", "; ".join("(%d, %d)%%N" % x for x in r[2]))
    if k == "cat": return "(RCat %s %s)" % (rx_coq(r[1]), rx_coq(r[2]))
    if k == "alt": return "(RAlt %s %s)" % (rx_coq(r[1]), rx_coq(r[2]))
    if k == "star": return "(RStar %s)" % rx_coq(r[1])
    if k == "plus": return "(RPlus %s)" % rx_coq(r[1])
    if k == "opt": return "(ROpt %s)" % rx_coq(r[1])
    raise ValueError(k)


def coq_string(s):
    s = "".join(c if 32 <= ord(c) < 127 else "?" for c in s)
    return '"' + s.replace('"', '""') + '"'


def act_coq(a):
    if a[0] == "skip": return "ASkip"
    if a[0] == "echo": return "AEcho"
    if a[0] == "char": return "AChar"
    if a[0] == "return": return "(AReturn %s %s)" % (coq_string(a[1]), "true" if a[2] else "false")
    return "(AOther %s)" % coq_string(a[1][:200])


HEADER = """(* GENERATED by checks/c11_flex_reader.py from src/libmps/monomial/tokenizer.l -- do not edit. *)
Require Import List String NArith.
Require Import MPSV.Inline.LexModel.
Import ListNotations.
Open Scope string_scope.

"""


def to_coq(rules):
    body = ";\n".join("  (%s,\n     %s)" % (rx_coq(r), act_coq(a)) for r, a in rules)
    return HEADER + "Definition lexer_gen : lexrules := [\n" + body + "\n].\n"


# ----------------------------------------------------------------------------- reference matcher (for self-tests of the reader)
def rx_py(r):
    """the same regular expression for Python's re (bytes), used by the check to cross-examine the reader"""
    k = r[0]
    if k == "eps": return b""
    if k == "cls":
        if not r[2]: return b"[\\x00-\\xff]" if r[1] else b"(?!)"
        body = b"".join(b"\\x%02x-\\x%02x" % x for x in r[2])
        return b"[" + (b"^" if r[1] else b"") + body + b"]"
    if k == "cat": return rx_py(r[1]) + rx_py(r[2])
    if k == "alt": return b"(?:" + rx_py(r[1]) + b"|" + rx_py(r[2]) + b")"
    return b"(?:" + rx_py(r[1]) + b")" + {"star": b"*", "plus": b"+", "opt": b"?"}[k]


if __name__ == "__main__":
    import sys
    sys.stdout.write(to_coq(read_lexer(open(sys.argv[1]).read())))
