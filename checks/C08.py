"""C08 - search set, counting and root-attribute classification is sound.

Theorems (coq/Props/Properties_C08.v): the exact touch predicates imply that the whole disc lies strictly on
one side of the axis / unit circle; the model of mps_{f,d,m}update_inclusions only classifies IN (OUT) discs all
of whose points are strictly inside (outside) the set; the three counts add up to n + zero_roots and the listing
filter omits exactly the OUT roots; a real polynomial's isolated root whose disc meets the real axis is real.

Tie, on every run: real solves (harness/vf_solve.c) over search sets x goals x algorithms x detection modes on
polynomials with KNOWN exact roots (and random ones).  The input polynomial is certified by the proved-sound
root oracle (bin/cert); each returned disc is matched to the certified roots it certainly contains
(Oracle.cover); a certified root is identified with a constructed exact root when that root lies in its tiny
disc (then sides / reality are decided by exact rational arithmetic), else Oracle.sides / real_flags decide.
A VIOLATION is reported only for a certified fact contradicting a claim of the implementation:
  IN  but the root is not strictly inside the set   /  OUT but the root is not strictly outside,
  attrs REAL (IMAG) on a root that is not real (not purely imaginary), NOT_REAL on a real root,
  printed counts that do not add up to the degree or disagree with the exported statuses,
  a listing whose number of lines is not zero_roots(unless set 'o') + #{inclusion != OUT},
  no termination although no root lies on the boundary of the search set.
Undecided oracle answers are counted, never reported.

Direct-call tie (run_direct): harness/c08_incl.c calls the real mps_{f,d,m}touchreal/imag/unit on generated exact dyadic
(centre, radius, factor) triples, and the real mps_?update_inclusions, mps_cluster_detect_properties, mps_countroots on
hand-built states; bin/incl (extracted from coq/Incl/TouchModel.v, TouchExch.v, InclModel.v) computes every outcome from the
same dyadics (variant m: the unit-circle outcomes and the `log r < sep - n lmax' tests are taken from the real code) and must
agree bit for bit.  Violations are decided on the implementation's output by exact rational geometry:
  a touch test says `no touch' although n*r >= |c| (axes) / the closed disc D(z, r) meets the unit circle,
  a root that was UNKNOWN comes out IN (OUT) although D(z, r) is not strictly inside (outside) the set,
  a decided root flips, a cluster is left partly UNKNOWN, NOT_REAL on a disc meeting the real axis, wrong counts.
A model/implementation difference on a case without a wrong claim is reported as broken correspondence (no input).
The first witnesses of every run tell which version of mps_{f,d,m}touchunit the tree has (as shipped / with
fixes/C08_{f,d}unit_allowance.patch, C08_munit_tangent.patch); the model of that version is the one compared.

Sequence tie (run_reuse): harness/c08_reuse.c solves two or three polynomials with exactly known roots one after the other on ONE
mps_context (search set / detection fixed for the context): inclusion and attrs are state of the context's approximations and
must not leak from one solve into the next (mps_cluster_reset).  Every IN / OUT / attrs claim of every solve is judged against
the exact roots contained in the reported disc (exact rational arithmetic), and mps_countroots against the statuses."""
import os, re, json, collections
from fractions import Fraction as Fr
import vf, solve as S, polygen as G, e2e
from oracle import Oracle, certify_all

SETS = "arludioRI"
SETNAME = {"a": "plane", "r": "right", "l": "left", "u": "upper", "d": "lower", "i": "unit-in", "o": "unit-out", "R": "real", "I": "imag"}
PH = {0: "none", 1: "float", 2: "dpe", 3: "mp"}
INC = S.INCLUSION
F0 = Fr(0)


# ----------------------------------------------------------------------------- exact facts about one root
def sgn(x): return "+" if x > 0 else "-" if x < 0 else "B"


def info_exact(z):
    return {"re": sgn(z[0]), "im": sgn(z[1]), "unit": sgn(z[0] * z[0] + z[1] * z[1] - 1), "real": z[1] == 0, "imag": z[0] == 0, "exact": True}


def strictly_inside(st, f):
    """True / False / None (undecided) : the root lies strictly inside search set st"""
    def side(kind, want):
        s = f[kind]
        if s == "0": return None
        return s == want
    if st == "a": return True
    if st == "r": return side("re", "+")
    if st == "l": return side("re", "-")
    if st == "u": return side("im", "+")
    if st == "d": return side("im", "-")
    if st == "i": return side("unit", "-")
    if st == "o": return side("unit", "+")
    if st == "R": return f["real"]
    if st == "I": return f["imag"]


def strictly_outside(st, f):
    opp = {"r": "l", "l": "r", "u": "d", "d": "u", "i": "o", "o": "i"}
    if st == "a": return False
    if st in opp: return strictly_inside(opp[st], f)
    v = f["real"] if st == "R" else f["imag"]
    return None if v is None else (not v)


def on_boundary(st, z):
    """exact root z lies on the boundary of the set (termination is then not required).  For the two
    lines the set is its own boundary."""
    f = info_exact(z)
    if st == "a": return False
    if st in "rl": return f["re"] == "B"
    if st in "ud": return f["im"] == "B"
    if st in "io": return f["unit"] == "B"
    if st == "R": return f["real"]
    if st == "I": return f["imag"]


# ----------------------------------------------------------------------------- generators
def P2(k): return Fr(1, 1 << k)


def _mk(name, cls, roots, rng, lead=1, zero=0):
    roots = [(Fr(a), Fr(b)) for a, b in roots]
    rational = rng.random() < 0.2
    c = G.from_roots_case(name, cls, roots + [(F0, F0)] * zero, rng, lead=lead, kind=None if rational else "Integer")
    c["realcoef"] = all(x[1] == 0 for x in c["coeffs"])
    c["rational"] = "Rational;" in c["text"]
    return c


def conj_close(roots):
    out = []
    for z in roots:
        out.append(z)
        if z[1] != 0: out.append((z[0], -z[1]))
    return out


def rnd_off(rng, den=None):
    """a Gaussian rational off both axes and off the unit circle"""
    while True:
        d = den or rng.choice([1, 2, 3, 4, 5, 8])
        z = (Fr(rng.randint(-3 * d, 3 * d), d), Fr(rng.randint(-3 * d, 3 * d), d))
        if z[0] != 0 and z[1] != 0 and z[0] ** 2 + z[1] ** 2 != 1: return z


PYTH = [(Fr(3, 5), Fr(4, 5)), (Fr(-5, 13), Fr(12, 13)), (Fr(8, 17), Fr(-15, 17)), (Fr(1), F0), (F0, Fr(1)), (Fr(-1), F0), (F0, Fr(-1))]


def gen_cases(rng, tier_quick):
    cs = []
    nrep = 6 if tier_quick else 40
    for i in range(nrep):                                            # generic, complex coefficients
        cs.append(_mk("offb%d" % i, "off-boundary-complex", list({rnd_off(rng) for _ in range(rng.randint(2, 7))}), rng))
    for i in range(nrep):                                            # real coefficients: conjugate pairs + real roots
        rs = conj_close(list({rnd_off(rng) for _ in range(rng.randint(1, 3))}))
        rs += list({(Fr(rng.choice([-1, 1]) * rng.randint(1, 9), rng.choice([2, 3, 5, 7])), F0) for _ in range(rng.randint(1, 3))})
        if rng.random() < 0.6:                                       # purely imaginary pairs
            b = Fr(rng.randint(1, 9), rng.choice([2, 3, 5]))
            rs += [(F0, b), (F0, -b)]
        cs.append(_mk("realc%d" % i, "real-coefficients-real+imag+complex-roots", rs, rng))
    for i in range(nrep + 2):                                        # distance 2^-k from a boundary
        k = rng.choice([1, 4, 10, 20, 30, 40, 45, 50]) if i >= 3 else [50, 30, 10][i]
        s1, s2 = rng.choice([-1, 1]), rng.choice([-1, 1])
        kind = ["re", "im", "unit", "unitp"][i % 4]
        if kind == "re": near = [(s1 * P2(k), Fr(rng.randint(1, 3)) * s2), (-s1 * P2(k), Fr(rng.randint(1, 3), 2))]
        elif kind == "im": near = [(Fr(rng.randint(1, 3)) * s2, s1 * P2(k)), (Fr(rng.randint(1, 3), 2), -s1 * P2(k))]
        elif kind == "unit": near = [(s2 * (1 + s1 * P2(k)), F0), (F0, s2 * (1 - s1 * P2(k)))]
        else:
            p = rng.choice(PYTH[:3]); near = [(p[0] * (1 + s1 * P2(k)), p[1] * (1 + s1 * P2(k))), (-p[0] * (1 - s1 * P2(k)), p[1] * (1 - s1 * P2(k)))]
        rs = near + list({rnd_off(rng, 2) for _ in range(rng.randint(0, 2))})
        cs.append(_mk("near-%s-k%d-%d" % (kind, k, i), "distance-2^-k-from-boundary", rs, rng))
    # |z| = 1 -+ 2^-53 / 2^-60 on the real axis and in a Pythagorean direction (DPE comparison of |z|-1 with the radius)
    for j, (k, s) in enumerate([(53, -1), (53, 1), (60, 1), (60, -1), (70, 1)] if tier_quick else [(k, s) for k in (53, 54, 60, 64, 70, 90) for s in (-1, 1)]):
        m = 1 + s * P2(k)
        cs.append(_mk("unit%s2^-%d-axis" % ("+" if s > 0 else "-", k), "unit-circle-2^-k", [(m, F0), (-m, F0)], rng))
        p = PYTH[j % 3]
        cs.append(_mk("unit%s2^-%d-pyth" % ("+" if s > 0 else "-", k), "unit-circle-2^-k", [(p[0] * m, p[1] * m), (p[0] * m, -p[1] * m), (Fr(2), F0)], rng))
    # tiny real / imaginary parts of both signs next to roots ON the axis
    for j, k in enumerate([20, 45] if tier_quick else [8, 20, 33, 45, 50]):
        cs.append(_mk("tiny-im-k%d" % k, "tiny-parts-both-signs", [(Fr(1), P2(k)), (Fr(1), -P2(k)), (Fr(-2), P2(k + 3)), (Fr(3), F0)], rng))
        cs.append(_mk("tiny-re-k%d" % k, "tiny-parts-both-signs", [(P2(k), Fr(1)), (-P2(k), Fr(1)), (P2(k + 3), Fr(-2)), (F0, Fr(3))], rng))
    # exactly on a boundary (only soundness is required)
    cs.append(_mk("x^2-1", "on-boundary", [(1, 0), (-1, 0)], rng))
    cs.append(_mk("x^2+1", "on-boundary", [(0, 1), (0, -1)], rng))
    cs.append(_mk("x^2+1.x-2", "on-boundary", [(0, 1), (0, -1), (2, 0)], rng))
    cs.append(_mk("onb-mixed", "on-boundary", [(Fr(3, 5), Fr(4, 5)), (Fr(3, 5), Fr(-4, 5)), (0, 2), (0, -2), (3, 0), (Fr(1, 2), Fr(1, 3)), (Fr(1, 2), Fr(-1, 3))], rng))
    for i in range(2 if tier_quick else 10):
        b = rng.choice(PYTH); rs = [b, (F0, Fr(rng.randint(1, 4))), (Fr(rng.randint(1, 4)), F0)] + [rnd_off(rng) for _ in range(rng.randint(1, 3))]
        cs.append(_mk("onb%d" % i, "on-boundary", list(set(rs)), rng))
    # zero roots (deflated by the solver, accounted for by mps_countroots / mps_output)
    for i in range(3 if tier_quick else 12):
        rs = list({rnd_off(rng) for _ in range(rng.randint(1, 4))})
        if i % 2: rs = conj_close(rs)
        cs.append(_mk("zero%d" % i, "zero-roots", rs, rng, zero=rng.randint(1, 3)))
    # multiple roots off / near / on the boundary
    for i in range(3 if tier_quick else 10):
        z = [rnd_off(rng, 2), (1 + P2(12), F0), (P2(10), Fr(1)), (Fr(1), F0)][i % 4]
        rs = [z] * rng.randint(2, 3) + [rnd_off(rng, 2)]
        cs.append(_mk("mult%d" % i, "multiple-roots", rs, rng))
    # clusters straddling a boundary
    for i, k in enumerate([16, 30] if tier_quick else [8, 16, 24, 30, 40]):
        cs.append(_mk("straddle-im-axis-k%d" % k, "cluster-straddling", [(P2(k), Fr(1)), (-P2(k), Fr(1)), (Fr(2), Fr(1))], rng))
        cs.append(_mk("straddle-unit-k%d" % k, "cluster-straddling", [(1 + P2(k), F0), (1 - P2(k), F0), (F0, Fr(3))], rng))
        cs.append(_mk("straddle-re-axis-k%d" % k, "cluster-straddling", [(Fr(1), P2(k)), (Fr(1), -P2(k)), (Fr(-2), F0)], rng))
    # random integer / rational coefficients (roots only known to the oracle)
    for i in range(6 if tier_quick else 40):
        cplx = i % 3 == 2
        co = G.rand_int_poly(rng, rng.randint(3, 9), rng.choice([3, 8]), cplx) if i % 2 == 0 else G.rand_rat_poly(rng, rng.randint(3, 8), cplx)
        c = G.mono_case("rand%d" % i, "random-%s%s" % ("integer" if i % 2 == 0 else "rational", "-complex" if cplx else ""), co, rng, kind=None if i % 2 == 0 else "Rational")
        c["realcoef"] = not cplx; c["rational"] = "Rational;" in c["text"]; cs.append(c)
    # even real polynomials g(x^2): irrational purely imaginary and real roots
    for i in range(2 if tier_quick else 8):
        g = [(F0 + 1, F0)]
        for a in rng.sample([2, 3, 5, 6, 7], rng.randint(1, 2)): g = S.poly_mul(g, [(Fr(a), F0), (Fr(1), F0)])      # y + a
        if rng.random() < 0.7: g = S.poly_mul(g, [(Fr(-rng.choice([2, 3, 5])), F0), (Fr(1), F0)])                     # y - b
        co = []
        for c_ in g: co += [c_, (F0, F0)]
        c = G.mono_case("even%d" % i, "even-real-irrational-imag-roots", co[:-1], rng); c["realcoef"] = True; c["even"] = True
        cs.append(c)
    # Mignotte-like real polynomials x^d - c (a x - 1)^2: two real roots near 1/a at distance ~ a^-(d/2+1), separated only in the
    # multiprecision phase (mps_mmodify -> mps_cluster_detect_properties (mp_phase)); roots known to the oracle only
    for d_, c_, a_ in ([(8, 3, 100), (12, 2, 1000), (6, 2, 5)] if tier_quick else [(8, 3, 100), (12, 2, 1000), (6, 2, 5), (10, 5, 50), (16, 7, 30), (8, 1, 2000)]):
        co = [(F0, F0)] * (d_ + 1)
        co[d_] = (Fr(1), F0); co[2] = (Fr(-c_ * a_ * a_), F0); co[1] = (Fr(2 * c_ * a_), F0); co[0] = (Fr(-c_), F0)
        c = G.mono_case("mignotte-d%d-c%d-a%d" % (d_, c_, a_), "close-real-pair-separated-in-mp-phase", co, rng)
        c["realcoef"] = True; c["rational"] = "Rational;" in c["text"]; c["mignotte"] = True; cs.append(c)
    # roots scaled far outside the double range: the coefficients overflow / underflow doubles, so the solve starts in the
    # DPE phase (mps_dupdate_inclusions, mps_dtouch*) and may go on to multiprecision; scaling keeps the side of each axis,
    # and the unit-circle cases mix huge and tiny roots
    base_c = [(1, -2), (-2, 3), (3, 1), (-1, -1)]                        # complex coefficients; Re, Im of opposite sign present
    base_r = conj_close([(1, 2), (-2, 3)]) + [(3, 0)]                      # real coefficients
    scales = [("1e120", Fr(10) ** 120), ("2^-400", Fr(1, 1 << 400))] if tier_quick else \
             [("1e120", Fr(10) ** 120), ("2^-400", Fr(1, 1 << 400)), ("2^400", Fr(1 << 400)), ("1e-120", Fr(1, 10 ** 120)), ("1e300", Fr(10) ** 300)]
    for nm, sc in scales:
        for tag, base in (("cplx", base_c), ("real", base_r)):
            c = _mk("scaled-%s-%s" % (nm, tag), "scaled-beyond-double-range", [(a * sc, b * sc) for a, b in base], rng)
            c["scaled"] = True; cs.append(c)
    H = Fr(10) ** 120
    for tag, big, small in (("cplx", [(1, -1), (-2, 1)], [(1, 2), (-1, -3)]), ("real", conj_close([(1, -1)]), conj_close([(-1, 3)]) + [(2, 0)])):
        c = _mk("scaled-unit-mixed-%s" % tag, "scaled-beyond-double-range", [(a * H, b * H) for a, b in big] + [(a / H, b / H) for a, b in small], rng)
        c["scaled"] = True; cs.append(c)
    return cs


def configs_for(case, rng, k, all_sets=False):
    out = []
    sets = list(SETS)
    rng.shuffle(sets)
    for j in range(k):
        st = sets[j % len(sets)]
        g = "cia"[(j + rng.randint(0, 2)) % 3]
        a = "us"[rng.randint(0, 1)]
        d = rng.choice("nnrib") if case.get("realcoef") else rng.choice("nnib")
        if case.get("rational") and rng.random() < 0.9:
            # real/imaginary detection is refused for rational input ("not yet implemented"): keep a few to see the refusal
            d = "n"
            if st in "RI": st = rng.choice("rludio")
        o = ["-a", a, "-G", g, "-S", st, "-D", d]
        if g == "a" and rng.random() < 0.5: o += ["-o", str(rng.choice([20, 40, 80]))]
        out.append(o)
    return out


def opt(o, flag):
    return o[o.index(flag) + 1]


# ----------------------------------------------------------------------------- judging one run
COUNT_RE = re.compile(r"^(\d+) roots are inside;\n(\d+) roots are outside;\n(\d+) roots are uncertain\.\s*$")


def tiny_contains(t, z):
    dx, dy = z[0] - t["re"], z[1] - t["im"]
    return dx * dx + dy * dy <= t["radius"] * t["radius"]


class ExactRoots:
    """Stand-in for the oracle on polynomials far outside its practical range (roots scaled by 10^+-120): the case
    was built as lead * prod (x - z_j) from exact Gaussian rationals; this is re-verified here coefficient by coefficient,
    so the roots and multiplicities are known exactly and every query is plain rational arithmetic."""
    def __init__(self, case):
        cnt = collections.Counter(case["roots"])
        P = S.poly_from_roots(case["roots"])
        lead = case["coeffs"][-1]
        self.ok = len(P) == len(case["coeffs"]) and all(S.cmul(lead, a) == b for a, b in zip(P, case["coeffs"]))
        self.roots = [{"re": z[0], "im": z[1], "radius": F0, "mult": m} for z, m in cnt.items()]
    def sides(self, kind):
        v = {"re": lambda t: t["re"], "im": lambda t: t["im"], "unit": lambda t: t["re"] ** 2 + t["im"] ** 2 - 1}[kind]
        return ["+" if v(t) > 0 else "-" if v(t) < 0 else "0" for t in self.roots]
    def real_flags(self): return [t["im"] == 0 for t in self.roots]
    def cover(self, discs):
        return [[j for j, d in enumerate(discs) if (d[0] - t["re"]) ** 2 + (d[1] - t["im"]) ** 2 <= d[2] * d[2]] for t in self.roots]
    def close(self): pass


def root_facts(case, orc, qinfo):
    """per certified root: side facts (exact when the root is identified with a constructed root)"""
    tiny = orc.roots
    sre, sim, sun, rf = orc.sides("re"), orc.sides("im"), orc.sides("unit"), orc.real_flags()
    facts = []
    known = collections.Counter(case["roots"]) if case.get("roots") else None
    for k, t in enumerate(tiny):
        f = None
        if known is not None:
            inside = [z for z in known if tiny_contains(t, z)]
            if len(inside) == 1 and known[inside[0]] == t["mult"]:
                f = info_exact(inside[0]); f["z"] = inside[0]
        if f is None:
            f = {"re": sre[k], "im": sim[k], "unit": sun[k], "exact": False,
                 "real": True if rf[k] else (False if sim[k] in "+-" else None),
                 "imag": False if sre[k] in "+-" else None}
            if qinfo is not None and t["mult"] == 1 and f["imag"] is None:
                # q(x) = p(ix) is real; a certified REAL root x of q gives the purely imaginary root ix of p
                for (xr, xrad) in qinfo:
                    dx, dy = F0 - t["re"], xr - t["im"]       # i*x = (0, x)
                    if xrad <= t["radius"] and dx * dx + dy * dy <= (t["radius"] - xrad) ** 2:
                        f["imag"] = True; break
        f["mult"] = t["mult"]
        facts.append(f)
    return facts


def judge(viol, case, opts, res, orc, facts, stats, tally):
    st, goal, alg, det = opt(opts, "-S"), opt(opts, "-G"), opt(opts, "-a"), opt(opts, "-D")
    rp = {"case": case["name"], "text": case["text"], "opts": opts, "cls": case.get("cls"), "even": bool(case.get("even")),
          "coeffs": [[str(a), str(b)] for a, b in case["coeffs"]] if case.get("coeffs") else None,
          "roots": [[str(a), str(b)] for a, b in case["roots"]] if case.get("roots") else None}
    zr = res.meta.get("zero_roots", 0); n = res.meta["n"]
    ph = PH.get(res.meta.get("lastphase"), "?")
    inc = [r.inclusion for r in res.roots]; att = [r.attrs for r in res.roots]
    # ---- counts and listing (pure bookkeeping on the exported statuses)
    nin, nout, nunk = inc.count(1), inc.count(2), inc.count(0)
    if goal == "c":
        m = COUNT_RE.match(res.output.strip() + "\n") or COUNT_RE.match(res.output)
        if not m:
            viol.append(("count-output-format", "goal count: output is not the three count lines: %r" % res.output[:200], rp))
        else:
            c = [int(m.group(1)), int(m.group(2)), int(m.group(3))]
            exp = [nin + (zr if st != "o" else 0), nout + (zr if st == "o" else 0), nunk]
            tally["count-outputs"] += 1
            if sum(c) != n + zr or (res.parsed_degree is not None and sum(c) != res.parsed_degree):
                viol.append(("count-sum:set=%s" % st, "%s: printed counts %s do not add up to the degree %d (n=%d, zero roots=%d), opts %s" % (case["name"], c, n + zr, n, zr, opts), rp))
            elif c != exp:
                viol.append(("count-mismatch:set=%s" % st, "%s: printed counts %s differ from the exported inclusion statuses %s (zero roots=%d), opts %s" % (case["name"], c, exp, zr, opts), rp))
    else:
        lines = [l for l in res.output.split("\n") if l.strip().startswith("(")]
        exp = (zr if st != "o" else 0) + (n - nout)
        tally["listings"] += 1
        if len(lines) != exp:
            viol.append(("listing:set=%s" % st, "%s: listing has %d root lines, expected %d = zero roots (%d, printed unless set o) + roots not reported outside (%d of %d), opts %s" % (case["name"], len(lines), exp, zr, n - nout, n, opts), rp))
    # ---- zero roots are reported inside (outside for set 'o') by mps_countroots / listed by mps_output
    if zr:
        f0 = info_exact((F0, F0))
        ok = strictly_outside(st, f0) if st == "o" else strictly_inside(st, f0)
        tally["zero-root-claims"] += 1
        if not ok:
            viol.append(("zero-root-reported-inside:set=%s" % st, "%s: the root 0 is counted/listed as inside the open set '%s' although it lies on its boundary (mps_countroots adds zero_roots to count[0]), opts %s" % (case["name"], SETNAME[st], opts), rp))
    if orc is None:
        stats["uncertified-run"] += 1; return
    # ---- match discs to certified roots
    discs = S.discs_of(res)
    usable = [j for j, d in enumerate(discs) if d[2] is not None and d[0] is not None]
    # fast exact pre-selection in Python (tiny disc inside the closed query disc: the very test of Oracle.cover);
    # every pair that leads to a VIOLATION is re-confirmed below by the extracted, proved-sound cover query
    tiny = orc.roots
    cov = []
    for t in tiny:
        lst = []
        for jj, j in enumerate(usable):
            d = discs[j]
            if d[2] >= t["radius"]:
                dx, dy, rr = d[0] - t["re"], d[1] - t["im"], d[2] - t["radius"]
                if dx * dx + dy * dy <= rr * rr: lst.append(jj)
        cov.append(lst)
    confirmed = {}
    def confirm(k, j):
        if (k, j) not in confirmed:
            confirmed[(k, j)] = (orc.cover([discs[j]])[k] == [0])
            if not confirmed[(k, j)]: stats["python-preselection-not-confirmed-by-oracle"] += 1
        return confirmed[(k, j)]
    for k, lst in enumerate(cov):
        f = facts[k]
        if not lst: stats["root-not-certainly-in-a-disc"] += 1
        for jj in lst:
            j = usable[jj]
            centre = info_exact((discs[j][0], discs[j][1]))
            # unit-circle sets: a radius below 2^-mpwp means mps_mtouchunit's modulus (computed at s->mpwp bits) is rounding noise
            sub = ":radius<2^-mpwp" if (st in "io" and discs[j][2] < Fr(1, 1 << min(4000, max(1, res.meta.get("mpwp", 64))))) else ""
            tag = "set=%s:alg=%s:phase=%s%s:centre(re%s,im%s,unit%s)" % (st, alg, ph, sub, centre["re"], centre["im"], centre["unit"])
            where = lambda: "%s root %d (disc centre %s, radius %s; certified root ~ %s%s), opts %s" % (
                case["name"], j, e2e.fdisc(discs[j])[:2], e2e.fdisc(discs[j])[2], e2e.fdisc((orc.roots[k]["re"], orc.roots[k]["im"], F0))[:2],
                " = %s exactly" % (tuple(str(x) for x in f["z"]),) if f.get("z") else "", opts)
            # inclusion claim
            if inc[j] == 1:
                v = strictly_inside(st, f)
                stats["IN:" + ("ok" if v else "undecided" if v is None else "WRONG")] += 1
                tally["claims-IN:" + st] += 1; tally["judged:%s:%s" % (ph, st)] += 1
                if v is False and confirm(k, j):
                    viol.append(("incl:claim=IN:root-not-inside:" + tag, "reported INSIDE the set '%s' but the root is not strictly inside: %s" % (SETNAME[st], where()), dict(rp, root=j)))
            elif inc[j] == 2:
                v = strictly_outside(st, f)
                stats["OUT:" + ("ok" if v else "undecided" if v is None else "WRONG")] += 1
                tally["claims-OUT:" + st] += 1; tally["judged:%s:%s" % (ph, st)] += 1
                if v is False and confirm(k, j):
                    viol.append(("incl:claim=OUT:root-not-outside:" + tag, "reported OUTSIDE the set '%s' but the root is not strictly outside: %s" % (SETNAME[st], where()), dict(rp, root=j)))
            else:
                tally["claims-UNKNOWN:" + st] += 1
            # attribute claim
            a = att[j]
            if a:
                tally["attrs-%s" % S.ATTRS[a]] += 1
                bad = None
                if a == 1: v = f["real"]; bad = "REAL but the root is not real"
                elif a == 2: v = None if f["real"] is None else not f["real"]; bad = "NOT_REAL but the root is real"
                elif a == 3: v = f["imag"]; bad = "IMAG but the root is not purely imaginary"
                elif a == 4: v = None if f["imag"] is None else not f["imag"]; bad = "NOT_IMAG but the root is purely imaginary"
                else: v = None if (f["real"] is None or f["imag"] is None) else (not f["real"] and not f["imag"]); bad = "NOT_REAL_AND_IMAG but the root is real or imaginary"
                stats["attr-%s:%s" % (S.ATTRS[a], "ok" if v else "undecided" if v is None else "WRONG")] += 1
                if v is False and confirm(k, j):
                    viol.append(("attrs:%s:wrong:alg=%s:set=%s:detect=%s:phase=%s" % (S.ATTRS[a], alg, st, det, ph), "flagged %s: %s" % (bad, where()), dict(rp, root=j)))


# ============================================================================= direct-call tie
# harness/c08_incl.c calls the real touch tests / update_inclusions / detect_properties / countroots on hand-built
# states; bin/incl (extracted from coq/Incl/TouchModel.v + InclModel.v) computes the same from the same exact dyadics.
# Violations are decided by exact rational geometry on the implementation's output alone.
VARIANTS = "fdm"
TWO = Fr(2)


def dyv(t):
    m, e = t
    return Fr(m) * (TWO ** e) if m else F0


def fs(q):
    """a rational for a message (Python refuses to print integers of more than 4300 digits)"""
    if q == 0: return "0"
    if max(q.numerator.bit_length(), q.denominator.bit_length()) < 600: return str(q)
    return "%s2^%d" % ("-" if q < 0 else "", q.numerator.bit_length() - q.denominator.bit_length())


def trunc_bits(M, E, nb=53):
    k = abs(M).bit_length()
    if k > nb:
        s = k - nb; M = (abs(M) >> s) * (1 if M > 0 else -1); E += s
    return M, E


def scale_div(t, q, rng, exact_only=False):
    """~ (M 2^E) / q as a 53-bit dyadic, moved by a few units in the last place (0 most often: tangent when q | M 2^k)"""
    M, E = t
    if M == 0: return (0, 0)
    v = (abs(M) << 70) // q; s = max(0, v.bit_length() - 53); v >>= s
    if not exact_only: v = max(0, v + rng.choice([-2, -1, 0, 0, 0, 0, 1, 2]))
    return trunc_bits(v, E - 70 + s)


def rnd_num(rng, v, prec=64, wide=False):
    nb = rng.choice([1, 2, 5, 20, 52, 53]) if v != "m" or rng.random() < 0.5 else rng.randint(54, max(54, prec))
    M = rng.getrandbits(nb) | (1 << (nb - 1))
    if rng.random() < 0.5: M = -M
    if v == "f": E = rng.randint(-60, 30) if not wide else rng.randint(-900, 900)
    elif v == "d": E = rng.randint(-60, 30) if not wide else rng.choice([1, -1]) * rng.randint(1000, 20000)
    else: E = rng.randint(-60, 30) if not wide else rng.randint(-400, 400)
    return (M, E - nb)


def pyth_point(rng, v, prec):
    """a centre within an ulp or so of the unit circle, off the axes"""
    a, b = sorted([rng.randint(1, 400), rng.randint(1, 400)])
    if a == b: b += 1
    x, y, c = b * b - a * a, 2 * a * b, a * a + b * b
    nb = 53 if v != "m" else rng.choice([53, 60, prec])
    def q(u):
        w = (u << (nb + 8)) // c; s = max(0, w.bit_length() - nb); w >>= s
        return (rng.choice([-1, 1]) * max(1, w + rng.choice([-1, 0, 0, 1])), -(nb + 8) + s)
    return (q(x), q(y)) if rng.random() < 0.5 else (q(y), q(x))


def unit_axis_point(rng, v, prec):
    kmax = 52 if v != "m" else prec // 2 - 2
    k = rng.randint(1, kmax); sg = rng.choice([-1, 1])
    c = (rng.choice([-1, 1]) * ((1 << k) + sg), -k)
    return ((c, (0, 0)) if rng.random() < 0.5 else ((0, 0), c)), (1, -k)


def gen_touch_cases(rng, count):
    out = []
    kinds = ["axis-tangent", "axis-tangent", "axis-r0", "axis-c0", "unit-axis-tangent", "unit-axis-tangent", "unit-on-circle",
             "unit-near-generic", "unit-near-generic", "unit-far", "generic", "wide", "guard"]
    for i in range(count):
        v = VARIANTS[i % 3]; kind = kinds[(i // 3) % len(kinds)]
        prec = 64 if v != "m" else rng.choice([64, 128, 256])
        fac = rng.choice([1, 1, 2, 2, 3, 4, 6, 8, 10, 14, 20, 64, 100, 2 * rng.randint(1, 60)])
        x, y = rnd_num(rng, v, prec), rnd_num(rng, v, prec)
        r = rnd_num(rng, v); r = (abs(r[0]), r[1] - rng.randint(0, 40))
        if kind == "axis-tangent":
            wide = rng.random() < 0.3
            c = rnd_num(rng, v, prec, wide)
            r = scale_div(c, fac, rng)
            x, y = (c, rnd_num(rng, v, prec, wide)) if rng.random() < 0.5 else (rnd_num(rng, v, prec, wide), c)
        elif kind == "axis-r0":
            r = (0, 0)
            if rng.random() < 0.5: x = (0, 0)
            if rng.random() < 0.5: y = (0, 0)
        elif kind == "axis-c0":
            if rng.random() < 0.6: x = (0, 0)
            else: y = (0, 0)
            if rng.random() < 0.3: r = (0, 0)
        elif kind == "unit-axis-tangent":
            (x, y), d = unit_axis_point(rng, v, prec)
            r = scale_div(d, fac, rng) if rng.random() < 0.8 else scale_div(d, 1, rng)
        elif kind == "unit-on-circle":
            x, y = rng.choice([((1, 0), (0, 0)), ((-1, 0), (0, 0)), ((0, 0), (1, 0)), ((0, 0), (-1, 0))])
            r = rng.choice([(0, 0), (0, 0), (1, -1074 if v == "f" else -3000), (1, -60), (1, -53)])
        elif kind == "unit-near-generic":
            x, y = pyth_point(rng, v, prec)
            r = rng.choice([(0, 0), (1, -70), (1, -60), (1, -56), (1, -54), (1, -53), (1, -52), (3, -52), (1, -48)])
            if r[0] and rng.random() < 0.5: r = scale_div(r, fac, rng)
        elif kind == "unit-far":
            k = rng.randint(1, 40); big = rng.random() < 0.5
            c = (rng.choice([-1, 1]), k if big else -k)
            x, y = (c, (0, 0)) if rng.random() < 0.5 else ((0, 0), c)
            d = ((1 << k) - 1, 0 if big else -k)
            r = scale_div(d, fac, rng)
        elif kind == "wide":
            x, y = rnd_num(rng, v, prec, True), rnd_num(rng, v, prec, True)
            r = rnd_num(rng, v, prec, True); r = (abs(r[0]), r[1])
        elif kind == "guard":
            if v == "f": r = scale_div(((1 << 53) - 1, 971), fac, rng); x, y = rnd_num(rng, v, prec, True), rnd_num(rng, v, prec, True)
            else:
                r = rnd_num(rng, v, prec, True); r = (abs(r[0]), r[1])
        if v != "m": x, y = trunc_bits(*x), trunc_bits(*y)
        r = trunc_bits(abs(r[0]), r[1])
        if v == "f":
            cl = lambda t: t if t[0] == 0 or (-1020 <= t[1] and t[1] + abs(t[0]).bit_length() <= 1023) else (t[0], max(-1020, min(t[1], 1023 - abs(t[0]).bit_length())))
            x, y, r = cl(x), cl(y), cl(r)
        out.append({"id": "t%d" % i, "v": v, "fac": fac, "prec": prec, "x": x, "y": y, "r": r, "cls": kind})
    return out


def touch_line(c):
    return "T %s %s %d %d %d %d %d %d %d %d" % (c["id"], c["v"], c["fac"], c["prec"], c["x"][0], c["x"][1], c["y"][0], c["y"][1], c["r"][0], c["r"][1])


def meets_axis(cv, rho):      # closed disc of radius rho around a centre whose coordinate is cv meets the axis
    return rho >= abs(cv)


def meets_unit(x, y, rho):
    m2 = x * x + y * y
    return m2 <= (1 + rho) ** 2 and (rho >= 1 or m2 >= (1 - rho) ** 2)


def unit_relation(x, y, rho):
    m2 = x * x + y * y
    if m2 == (1 + rho) ** 2 or (rho <= 1 and m2 == (1 - rho) ** 2): return "tangent"
    return "crossing"


def near_circle(x, y):
    """the centre lies within about 2^-50 of the unit circle (the reach of the rounding errors of cplx_mod / cdpe_mod)"""
    return "within-2^-50-of-circle" if abs(x * x + y * y - 1) <= Fr(1, 1 << 49) else "off-circle"


def m_unit_modelled(c):
    """variant m: the model computes mps_mtouchunit itself only for centres on an axis whose square and |z| - 1 fit the precision"""
    if c["x"][0] != 0 and c["y"][0] != 0: return False
    t = c["x"] if c["y"][0] == 0 else c["y"]
    if t[0] == 0: return True
    bl = abs(t[0]).bit_length()
    hi, lo = max(t[1] + bl, 1), min(t[1], 0)
    return 2 * bl + 2 <= c["prec"] and hi - lo + 2 <= c["prec"]


SETS_DIRECT = "arludioRIC"


def gen_state_cases(rng, count):
    out = []
    for i in range(count):
        v = VARIANTS[i % 3]
        n = rng.choice([1, 1, 2, 2, 3, 3, 4, 5, 6, 8])
        st = rng.choice("aC" + "rludioRI" * 3)
        rs = rng.randint(0, 1); det = rng.choice([0, 0, 1, 2, 3, 3])
        zr = rng.choice([0, 0, 0, 1, 2, 5])
        prec = 64 if v != "m" else rng.choice([64, 128])
        sep, lmax = rng.choice([(0.0, 0.0), (-30.5, 1.25), (-5.0, 0.5), (-700.0, 3.0), (-100.0, 0.0)])
        idx = list(range(n)); rng.shuffle(idx)
        clusters = []
        single = rng.random() < (0.7 if st in "RI" or det else 0.35)
        while idx:
            k = 1 if single else rng.randint(1, min(3, len(idx)))
            clusters.append(idx[:k]); idx = idx[k:]
        roots = []
        for j in range(n):
            # which boundary this root is aimed at
            opts = {"r": ["im"], "l": ["im"], "u": ["re"], "d": ["re"], "i": ["unit"], "o": ["unit"], "R": ["re"], "I": ["im"], "a": ["re", "im", "unit"], "C": ["re", "im", "unit"]}[st]
            if det & 1: opts = opts + ["re"]
            if det & 2: opts = opts + ["im"]
            b = rng.choice(opts)
            fac = rng.choice([1, n, 2 * n, 2 * n])
            kind = rng.choice(["clear", "clear", "tangent", "tangent", "between", "straddle", "on-boundary", "r0", "tiny-r"])
            wide = rng.random() < 0.15
            x, y = rnd_num(rng, v, prec, wide), rnd_num(rng, v, prec, wide)
            if b == "unit":
                u = rng.random()
                if u < 0.45: (x, y), d = unit_axis_point(rng, v, prec)
                elif u < 0.75: x, y = pyth_point(rng, v, prec); d = (1, -53)
                else:
                    k = rng.randint(1, 30); big = rng.random() < 0.5
                    c = (rng.choice([-1, 1]), k if big else -k); x, y = (c, (0, 0)) if rng.random() < 0.5 else ((0, 0), c); d = ((1 << k) - 1, 0 if big else -k)
                if kind == "on-boundary": x, y = rng.choice([((1, 0), (0, 0)), ((-1, 0), (0, 0)), ((0, 0), (1, 0)), ((0, 0), (-1, 0))]); d = (0, 0)
            else:
                c = x if b == "im" else y
                if kind == "on-boundary":
                    c = (0, 0)
                    if b == "im": x = c
                    else: y = c
                d = (abs(c[0]), c[1])
            if kind == "clear": r = scale_div(d, fac * (1 << rng.randint(1, 30)), rng)
            elif kind == "tangent": r = scale_div(d, fac, rng)
            elif kind == "between": r = scale_div((d[0] * rng.randint(2, 7), d[1] - 3), max(1, fac), rng) if fac > 1 else scale_div(d, 1, rng)
            elif kind == "straddle": r = scale_div((d[0] * rng.randint(8, 40), d[1] - 3), 1, rng)
            elif kind == "r0": r = (0, 0)
            elif kind == "tiny-r": r = (1, rng.choice([-1000, -300, -80, -60, -54]))
            else: r = rng.choice([(0, 0), (1, -rng.randint(1, 200))])
            if kind in ("clear", "tangent", "between", "straddle") and d[0] == 0: r = rng.choice([(0, 0), (1, -rng.randint(1, 200))])
            if v != "m": x, y = trunc_bits(*x), trunc_bits(*y)
            r = trunc_bits(abs(r[0]), r[1])
            if v == "f":
                cl = lambda t: t if t[0] == 0 or (-1020 <= t[1] and t[1] + abs(t[0]).bit_length() <= 1023) else (t[0], max(-1020, min(t[1], 1023 - abs(t[0]).bit_length())))
                x, y, r = cl(x), cl(y), cl(r)
            inc0 = rng.choice([0, 0, 0, 0, 0, 0, 1, 2]); att0 = rng.choice([0, 0, 0, 1, 2, 3])
            roots.append({"x": x, "y": y, "r": r, "inc0": inc0, "att0": att0, "kind": kind, "aim": b})
        out.append({"id": "s%d" % i, "v": v, "set": st, "rs": rs, "det": det, "sep": sep, "lmax": lmax, "zr": zr, "prec": prec, "n": n,
                    "clusters": clusters, "roots": roots})
    return out


def state_line(c):
    cl = ";".join(",".join(str(k) for k in g) for g in c["clusters"])
    rt = " ".join("%d %d %d %d %d %d %d %d" % (r["x"][0], r["x"][1], r["y"][0], r["y"][1], r["r"][0], r["r"][1], r["inc0"], r["att0"]) for r in c["roots"])
    return "S %s %s %s %d %d %r %r %d %d %d %s %s" % (c["id"], c["v"], c["set"], c["rs"], c["det"], c["sep"], c["lmax"], c["zr"], c["prec"], c["n"], cl, rt)


def fields(line):
    t = line.split()
    return t[0], dict(x.split("=", 1) for x in t[1:] if "=" in x)


def disc_inside(st, x, y, r):
    """closed disc strictly inside the open set st / for the two lines: the disc meets the line (necessary for IN)"""
    if st == "a": return True
    if st == "r": return x - r > 0
    if st == "l": return x + r < 0
    if st == "u": return y - r > 0
    if st == "d": return y + r < 0
    if st == "i": return r < 1 and x * x + y * y < (1 - r) ** 2
    if st == "o": return x * x + y * y > (1 + r) ** 2
    if st == "R": return r >= abs(y)
    if st == "I": return r >= abs(x)
    return False


def disc_outside(st, x, y, r):
    opp = {"r": "l", "l": "r", "u": "d", "d": "u", "i": "o", "o": "i"}
    if st in opp: return disc_inside(opp[st], x, y, r)
    if st == "R": return r < abs(y)
    if st == "I": return r < abs(x)
    return False


def run_direct(ctx, stats, only=None):
    """returns coverage dict; reports violations through ctx.violation"""
    h = ctx.compile_harness(["c08_incl.c"], "c08_incl", mode="san")
    env = ctx.san_env()
    rng = ctx.rng
    if only is not None:
        tcases = [c for c in only if c.get("kind") == "T"]; scases = [c for c in only if c.get("kind") == "S"]
    else:
        tcases = gen_touch_cases(rng, ctx.pick(3900, 30000))
        scases = gen_state_cases(rng, ctx.pick(2400, 20000))
    # deterministic replays of the witnesses of C08_mtouchunit_tangent_refuted / C08_ftouchunit_refuted and the probe that
    # tells which version of mps_mtouchunit the tree has (before / after fixes/C08_munit_tangent.patch)
    wit = [{"id": "w-m-unit-r0-on-circle", "v": "m", "fac": 2, "prec": 64, "x": (1, 0), "y": (0, 0), "r": (0, 0), "cls": "witness"},
           {"id": "w-m-unit-tangent-inside", "v": "m", "fac": 2, "prec": 64, "x": (1, -1), "y": (0, 0), "r": (1, -2), "cls": "witness"},
           {"id": "w-f-unit-modulus-rounding", "v": "f", "fac": 2, "prec": 64, "x": (0x1202bb20418f6d, -53), "y": (0x1a7343bb7bba41, -53), "r": (1, -56), "cls": "witness"},
           {"id": "w-d-unit-modulus-rounding", "v": "d", "fac": 2, "prec": 64, "x": (8783257514563430, -53), "y": (-7984009867200034, -55), "r": (1, -56), "cls": "witness"}]
    tcases = wit + tcases
    tl = [touch_line(c) for c in tcases]; sl = [state_line(c) for c in scases]
    import concurrent.futures
    def run_h(lines):
        if not lines: return []
        k = max(1, min(6, len(lines) // 200 or 1)); chunks = [lines[i::k] for i in range(k)]
        def one(ch):
            rc, o, e = vf.sh([h], input="\n".join(ch) + "\n", timeout=900, env=env)
            if rc != 0: raise vf.InfraError("c08_incl failed rc=%d: %s" % (rc, (e or "")[-1500:]))
            return o.split("\n")[:len(ch)]
        with concurrent.futures.ThreadPoolExecutor(max_workers=k) as ex: outs = list(ex.map(one, chunks))
        res = [None] * len(lines)
        for j, o in enumerate(outs):
            if len(o) != len(chunks[j]): raise vf.InfraError("c08_incl returned %d lines for %d inputs" % (len(o), len(chunks[j])))
            for t, line in enumerate(o): res[j + t * k] = line
        return res
    hout = run_h(tl + sl)
    ht, hs = hout[:len(tl)], hout[len(tl):]
    # model input: S lines extended with the outcomes taken from the real code
    # which mps_ftouchunit / mps_dtouchunit the tree has (before / after fixes/C08_{f,d}unit_allowance.patch): the repaired
    # tests answer `touch' on the witnesses of C08_ftouchunit_refuted / C08_dtouchunit_refuted
    fixed_unit = {"f": fields(ht[2])[1]["T"][2] == "1", "d": fields(ht[3])[1]["T"][2] == "1"}
    ml = list(tl)
    for c, line, ho in zip(scases, sl, hs):
        _, f = fields(ho)
        if "SM" not in f: raise vf.InfraError("c08_incl: bad output %r" % ho[:200])
        un = "".join(f["T"][7 * i] + f["SD"][6 * i] + f["SD"][6 * i + 1] for i in range(c["n"]))
        ml.append(line + " " + f["SM"] + " " + un + (" FX=1" if fixed_unit.get(c["v"]) else ""))
    mout = ctx.run_model_lines("incl", ml, workers=6)
    mt, ms = mout[:len(tl)], mout[len(tl):]
    ctx.log("direct tie: %d touch cases, %d states through harness and model" % (len(tl), len(sl)))
    hist = collections.Counter(); mism = collections.Counter(); mism_ex = {}
    nviol = 0
    # ---- which mps_mtouchunit
    fixed_munit = fields(ht[0])[1]["T"][2] == "1" if only is None or tcases[0]["id"] == "w-m-unit-r0-on-circle" else None
    stats["direct:mps_mtouchunit-version"] = "after-C08_munit_tangent.patch" if fixed_munit else "as-shipped"
    stats["direct:mps_ftouchunit-version"] = "after-C08_funit_allowance.patch" if fixed_unit["f"] else "as-shipped"
    stats["direct:mps_dtouchunit-version"] = "after-C08_dunit_allowance.patch" if fixed_unit["d"] else "as-shipped"
    def tsig(v, which, x, y, rho, r):
        if which == "unit": rel = unit_relation(x, y, rho) + ":" + near_circle(x, y)
        else: rel = "tangent" if rho == abs(y if which == "real" else x) else "crossing"
        return "direct:touch-unsound:%s:%s:%s:%s" % (v, which, rel, "r=0" if r == 0 else "r>0")
    def judge_touch(c, v, which, fac, bit, x, y, r, rp):
        """bit = 0 (no touch) must be justified: axis tests for the disc scaled by fac, unit test for the disc itself"""
        if bit != "0": hist["touch:%s:%s:touch" % (v, which)] += 1; return False
        hist["touch:%s:%s:clear" % (v, which)] += 1
        if which == "unit":
            if meets_unit(x, y, r):
                ctx.violation(tsig(v, which, x, y, r, r), "mps_%stouchunit (factor %d) says the disc does not touch the unit circle although the closed disc D(z, r) meets it: z = (%s, %s), r = %s" % (v, fac, fs(x), fs(y), fs(r)), rp); return True
            if meets_unit(x, y, fac * r): hist["unit:%s:%sscaled-disc-meets-circle-but-clear(rounding/strictness inside the factor margin)" % (v, "REPAIRED-TEST:" if fixed_unit.get(v) else "")] += 1
        else:
            cv = y if which == "real" else x
            if meets_axis(cv, fac * r):
                ctx.violation(tsig(v, which, x, y, fac * r, r), "mps_%stouch%s (factor %d) says the scaled disc does not touch the axis although %d * r >= |c|: c = %s, r = %s" % (v, which, fac, fac, fs(cv), fs(r)), rp); return True
        return False
    # ---- touch lines
    for c, line, ho, mo in zip(tcases, tl, ht, mt):
        _, hf = fields(ho); _, mf = fields(mo)
        if "T" not in hf or "T" not in mf: raise vf.InfraError("bad touch output %r / %r" % (ho[:100], mo[:100]))
        x, y, r = dyv(c["x"]), dyv(c["y"]), dyv(c["r"])
        rp = {"direct": [dict(c, kind="T")], "line": line, "impl": ho, "model": mo}
        hist["T:%s:%s" % (c["v"], c["cls"])] += 1
        bad = False
        for k, which in enumerate(("real", "imag", "unit")):
            bad |= judge_touch(c, c["v"], which, c["fac"], hf["T"][k], x, y, r, rp)
        nviol += bad
        mbits = mf["T"]
        if c["v"] == "m":
            mbits = mbits[:2] + ((mf["F"] if fixed_munit else mf["T"][2]) if m_unit_modelled(c) else "?")
            hist["m-unit:%s" % ("modelled" if mbits[2] != "?" else "outcome-not-modelled")] += 1
        elif fixed_unit.get(c["v"]):
            mbits = mbits[:2] + mf["G"]
        for k, which in enumerate(("real", "imag", "unit")):
            if mbits[k] != "?" and mbits[k] != hf["T"][k] and not bad:
                key = "touch%s:%s" % (which, c["v"]); mism[key] += 1; mism_ex.setdefault(key, rp)
    # ---- states
    for c, line, ho, mo in zip(scases, sl, hs, ms):
        _, hf = fields(ho); _, mf = fields(mo)
        n, v, st = c["n"], c["v"], c["set"]
        rp = {"direct": [dict(c, kind="S")], "line": line, "impl": ho, "model": mo}
        hist["S:%s:set=%s" % (v, st)] += 1; hist["S:n=%d" % n] += 1; hist["S:clusters=%d" % len(c["clusters"])] += 1
        bad = False
        csize = {}
        for g in c["clusters"]:
            for k in g: csize[k] = len(g)
        for i, rt in enumerate(c["roots"]):
            x, y, r = dyv(rt["x"]), dyv(rt["y"]), dyv(rt["r"])
            hist["root:%s:aim=%s" % (rt["kind"], rt["aim"])] += 1
            tb = hf["T"][7 * i:7 * i + 7]
            for k, (which, fac) in enumerate((("unit", 2 * n), ("imag", 2 * n), ("real", 2 * n), ("real", 1), ("imag", 1), ("real", n), ("imag", n))):
                bad |= judge_touch(c, v, which, fac, tb[k], x, y, r, rp)
            sd = hf["SD"][6 * i:6 * i + 6]; m2 = x * x + y * y
            just = [(m2 <= 1) if sd[0] == "1" else (m2 >= 1), (m2 >= 1) if sd[1] == "1" else (m2 <= 1),
                    (x <= 0) if sd[2] == "1" else (x >= 0), (x >= 0) if sd[3] == "1" else (x <= 0),
                    (y <= 0) if sd[4] == "1" else (y >= 0), (y >= 0) if sd[5] == "1" else (y <= 0)]
            if not all(just): hist["side-outcome-not-justified-by-the-centre:%s:%s" % (v, "unit" if not all(just[:2]) else "axis")] += 1
            new = int(hf["INC"][i])
            if rt["inc0"] == 0 and new != 0:
                ok = disc_inside(st, x, y, r) if new == 1 else disc_outside(st, x, y, r)
                if new == 1 and st in "RI":
                    # IN for the two lines rests on the separation bound (C08_sep_branch_partial), not on geometry: only the
                    # isolation requirement is judged; a disc that does not even meet the line (possible in variant m, whose
                    # touch test truncates the centre to 53 bits) is counted
                    if not ok: hist["IN-claim-for-a-line-although-the-disc-misses-it(variant %s)" % v] += 1
                    ok = csize[i] == 1
                hist["claim:%s:%s:%s" % (v, st, "IN" if new == 1 else "OUT")] += 1
                if not ok:
                    bad = True
                    ctx.violation("direct:incl:%s:set=%s:claim=%s:%s:%s%s" % (v, st, "IN" if new == 1 else "OUT", "r=0" if r == 0 else "r>0",
                                                                           "centre-on-boundary" if disc_inside(st, x, y, F0) == disc_outside(st, x, y, F0) and st not in "RI" else "centre-off-boundary",
                                                                           ":" + near_circle(x, y) if st in "io" else ""),
                                  "mps_%supdate_inclusions classifies root %d %s for the set '%s' although the closed disc D(z, r) is not strictly %s: z = (%s, %s), r = %s" % (
                                      v, i, "IN" if new == 1 else "OUT", SETNAME.get(st, st), "inside" if new == 1 else "outside", fs(x), fs(y), fs(r)), rp)
            elif rt["inc0"] != 0 and new not in (0, rt["inc0"]):
                bad = True
                ctx.violation("direct:incl:%s:decided-root-flipped" % v, "root %d was %s before the call and is %s after it" % (i, INC[rt["inc0"]], INC[new]), rp)
            if (c["det"] & 1) and c["rs"] and csize[i] == 1 and hf["DA"][i] == "2":
                hist["attr-claim:%s:NOT_REAL" % v] += 1
                if r >= abs(y):
                    bad = True
                    ctx.violation("direct:attrs:%s:NOT_REAL:disc-meets-real-axis:%s" % (v, "r=0" if r == 0 else "r>0"),
                                  "mps_cluster_detect_properties flags root %d NOT_REAL although the closed disc D(z, r) meets the real axis: Im z = %s, r = %s" % (i, fs(y), fs(r)), rp)
        for g in c["clusters"]:
            u = [hf["INC"][k] == "0" for k in g]
            if any(u) and not all(u):
                bad = True
                ctx.violation("direct:incl:%s:cluster-partly-unknown" % v, "cluster %s has members with and without a decision after the call: %s" % (g, [hf["INC"][k] for k in g]), rp)
        cnt = [int(t) for t in hf["CNT"].split(",")]
        exp = [hf["INC"].count("1") + (c["zr"] if st != "o" else 0), hf["INC"].count("2") + (c["zr"] if st == "o" else 0), hf["INC"].count("0")]
        if sum(cnt) != n + c["zr"] or cnt != exp:
            bad = True
            ctx.violation("direct:count:set=%s" % st, "mps_countroots gives %s for statuses %s and %d zero roots (expected %s, sum %d)" % (cnt, hf["INC"], c["zr"], exp, n + c["zr"]), rp)
        nviol += bad
        for key in ("T", "SD", "DA", "INC", "ATT", "CNT"):
            if hf.get(key) != mf.get(key) and not bad:
                k2 = "%s:%s" % (key, v); mism[k2] += 1; mism_ex.setdefault(k2, rp)
    for key, cnt in sorted(mism.items()):
        ctx.violation("correspondence:direct:%s" % key, "the extracted model (coq/Incl) and the real code disagree on %s in %d cases although no claim of the implementation is wrong, e.g. %s" % (
            key, cnt, mism_ex[key]["line"][:300]), mism_ex[key], no_input=True)
    samples = [{"line": l[:200], "impl": o[:200], "model": m[:200]} for l, o, m in list(zip(sl, hs, ms))[:3] + list(zip(tl, ht, mt))[:3]]
    return {"touch_cases": len(tl), "state_cases": len(sl), "roots_in_states": sum(c["n"] for c in scases),
            "cases_with_a_violated_claim": nviol, "model_impl_mismatches": dict(mism), "histogram": dict(hist), "samples": samples}


# ============================================================================= sequences of solves on ONE context
# harness/c08_reuse.c: the classification state (inclusion, attrs) lives in the context's approximations and has to be reset
# between solves (mps_cluster_reset).  Polynomials are prod (d_j x - (a_j + i b_j)) with Gaussian-integer coefficients, so
# every root (a_j + i b_j) / d_j is known exactly; every root is strictly off both axes and off the unit circle.
def _hexdy(tok):
    """[-]HEX:EXP2 -> Fraction"""
    m, e = tok.split(":")
    if m in ("0", "-0"): return F0
    v = int(m, 16); e = int(e)
    return Fr(v) * TWO ** e


def _afloat(tok):
    """C %a literal followed by :EXP (long) -> Fraction"""
    m, e = tok.rsplit(":", 1)
    f = float.fromhex(m)
    return Fr(f) * TWO ** int(e)


def gen_reuse_cases(rng, count):
    out = []
    for i in range(count):
        st = "rludio"[i % 6] if i % 4 != 3 else "RI"[(i // 4) % 2]
        alg = "us"[(i // 2) % 2] if st not in "RI" else "u"
        det = "n"
        realc = st in "RI" or i % 5 == 0
        if realc and alg == "u" and i % 2 == 0: det = rng.choice("rb") if st != "I" else "n"
        goal = "ica"[i % 3]
        k = rng.choice([2, 2, 3])
        deg0 = rng.randint(2, 6)
        polys = []
        for j in range(k):
            deg = deg0 if j == 0 else rng.randint(max(1, deg0 - 2), deg0)
            roots, facs = [], []
            while len(roots) < deg:
                d = rng.choice([1, 1, 2, 3])
                if realc and rng.random() < 0.5:
                    a = rng.randint(-3 * d, 3 * d)
                    z = (Fr(a, d), F0)
                    if a == 0 or abs(a) == d or z in roots: continue
                    roots.append(z); facs.append([(Fr(-a), F0), (Fr(d), F0)])
                else:
                    a, b = rng.randint(-3 * d, 3 * d), rng.randint(-3 * d, 3 * d)
                    z = (Fr(a, d), Fr(b, d))
                    if a == 0 or b == 0 or a * a + b * b == d * d or z in roots or (z[0], -z[1]) in roots: continue
                    if realc:
                        if len(roots) + 2 > deg: continue
                        roots += [z, (z[0], -z[1])]
                        facs.append([(Fr(a * a + b * b), F0), (Fr(-2 * a * d), F0), (Fr(d * d), F0)])
                    else:
                        roots.append(z); facs.append([(Fr(-a), Fr(-b)), (Fr(d), F0)])
            co = [(Fr(1), F0)]
            for f_ in facs: co = S.poly_mul(co, f_)
            polys.append({"roots": roots, "coeffs": co})
        out.append({"id": "q%d" % i, "alg": alg, "set": st, "goal": goal, "det": det, "digits": rng.choice([0, 0, 30]), "polys": polys})
    return out


def reuse_line(c):
    ps = " ".join("%d %s" % (len(p["coeffs"]) - 1, " ".join("%d,%d" % (int(a), int(b)) for a, b in p["coeffs"])) for p in c["polys"])
    return "Q %s %s %s %s %s %d %d %s" % (c["id"], c["alg"], c["set"], c["goal"], c["det"], c["digits"], len(c["polys"]), ps)


def run_reuse(ctx, only=None):
    h = ctx.compile_harness(["c08_reuse.c"], "c08_reuse", mode="san")
    cases = only if only is not None else gen_reuse_cases(ctx.rng, ctx.pick(72, 600))
    lines = [reuse_line(c) for c in cases]
    byid = collections.defaultdict(dict)
    hist = collections.Counter(); nsolves = 0; samples = []
    # every constructed root is strictly off the boundary of the set, so every solve has to terminate: the harness runs in
    # chunks under a CPU-time limit of the child (the unchanged tree needs well under a second per chunk)
    CPU = ctx.pick(90, 300)
    for k in range(0, len(cases), 8):
        if hist["no-termination"] >= 2: hist["chunks-skipped-after-two-non-terminating-ones"] += 1; continue
        chunk = cases[k:k + 8]
        rc, out, err = vf.sh(["bash", "-c", "ulimit -t %d; exec %s" % (CPU, h)], input="\n".join(lines[k:k + 8]) + "\n", timeout=20 * CPU, env=ctx.san_env())
        for l in out.split("\n"):
            t = l.split()
            if len(t) >= 2 and t[1].startswith("step="): byid[t[0]][int(t[1][5:])] = l
        if rc in (124, 137, 152, -9, -24) or (rc != 0 and "CPU time" in (err or "")):
            stuck = [c for c in chunk if len(byid[c["id"]]) < len(c["polys"]) and not any("ERR=" in l for l in byid[c["id"]].values())]
            c = stuck[0] if stuck else chunk[0]
            hist["no-termination"] += 1
            ctx.violation("reuse:no-termination:set=%s:alg=%s:goal=%s:detect=%s" % (c["set"], c["alg"], c["goal"], c["det"]),
                          "sequence %s: solve %d of %d on one context used more than %d s of CPU time although no root lies on the boundary of the search set" % (
                              c["id"], len(byid[c["id"]]) + 1, len(c["polys"]), CPU), {"reuse": [c_json(c)], "line": reuse_line(c)})
        elif rc != 0:
            raise vf.InfraError("c08_reuse failed rc=%d: %s" % (rc, (err or "")[-1500:]))
    for c in cases:
        st = c["set"]
        for j, p in enumerate(c["polys"]):
            l = byid[c["id"]].get(j)
            rp = {"reuse": [c_json(c)], "step": j, "line": reuse_line(c), "impl": l}
            if l is None:
                hist["step-not-reached"] += 1; break
            if "ERR=" in l:
                hist["solve-error:%s" % l.split("ERR=")[1][:40]] += 1; break
            nsolves += 1
            hist["Q:set=%s:alg=%s:step=%d" % (st, c["alg"], j)] += 1
            head, *rts = l.split(" R ")
            hf = dict(x.split("=", 1) for x in head.split()[1:] if "=" in x)
            if len(samples) < 3: samples.append({"line": rp["line"][:160], "impl": l[:200]})
            incs = []
            for i, rt in enumerate(rts):
                t = rt.split()
                inc, att = int(t[0]), int(t[1])
                incs.append(inc)
                if t[2].startswith("D"): cx, cy = _afloat(t[2][1:]), _afloat(t[3][1:])
                else: cx, cy = _hexdy(t[2]), _hexdy(t[3])
                rad = _afloat(t[4])
                inside = [z for z in p["roots"] if (z[0] - cx) ** 2 + (z[1] - cy) ** 2 <= rad * rad]
                if not inside: hist["disc-without-constructed-root"] += 1
                for z in inside:
                    f = info_exact(z)
                    tag = "set=%s:alg=%s:step=%s:phase=%s" % (st, c["alg"], "first" if j == 0 else "later", PH.get(int(hf.get("phase", 0)), "?"))
                    where = "sequence %s, solve %d of %d on the same context: root %d (centre ~ (%.6g, %.6g), radius ~ %.3g) contains the exact root %s" % (
                        c["id"], j + 1, len(c["polys"]), i, float(cx), float(cy), float(rad), (str(z[0]), str(z[1])))
                    if inc == 1:
                        hist["claim-IN:step%d" % min(j, 1)] += 1
                        if strictly_inside(st, f) is False:
                            ctx.violation("reuse:incl:claim=IN:root-not-inside:" + tag, "reported INSIDE the set '%s' but the root is not strictly inside: %s" % (SETNAME[st], where), rp)
                    elif inc == 2:
                        hist["claim-OUT:step%d" % min(j, 1)] += 1
                        if strictly_outside(st, f) is False:
                            ctx.violation("reuse:incl:claim=OUT:root-not-outside:" + tag, "reported OUTSIDE the set '%s' but the root is not strictly outside: %s" % (SETNAME[st], where), rp)
                    else: hist["claim-UNKNOWN:step%d" % min(j, 1)] += 1
                    if att:
                        hist["attrs-%s:step%d" % (S.ATTRS[att], min(j, 1))] += 1
                        bad = {1: not f["real"], 2: f["real"], 3: not f["imag"], 4: f["imag"], 5: f["real"] or f["imag"]}.get(att, False)
                        if bad:
                            ctx.violation("reuse:attrs:%s:wrong:%s:detect=%s" % (S.ATTRS[att], tag, c["det"]), "flagged %s wrongly: %s" % (S.ATTRS[att], where), rp)
            cnt = [int(x) for x in hf["cnt"].split(",")]
            zr = int(hf.get("zr", 0))
            exp = [incs.count(1) + (zr if st != "o" else 0), incs.count(2) + (zr if st == "o" else 0), incs.count(0)]
            if cnt != exp or sum(cnt) != len(p["coeffs"]) - 1:
                ctx.violation("reuse:count:set=%s" % st, "mps_countroots gives %s for statuses %s (%d zero roots) in solve %d of sequence %s" % (cnt, incs, zr, j + 1, c["id"]), rp)
    ctx.log("reuse tie: %d sequences, %d solves on shared contexts" % (len(cases), nsolves))
    return {"sequences": len(cases), "solves": nsolves, "histogram": dict(hist), "samples": samples}


def c_json(c):
    return dict(c, polys=[{"roots": [[str(a), str(b)] for a, b in p["roots"]], "coeffs": [[str(a), str(b)] for a, b in p["coeffs"]]} for p in c["polys"]])


def c_unjson(c):
    return dict(c, polys=[{"roots": [(Fr(a), Fr(b)) for a, b in p["roots"]], "coeffs": [(Fr(a), Fr(b)) for a, b in p["coeffs"]]} for p in c["polys"]])



def run(ctx):
    ctx.prove()
    ctx.proof_violation_if_broken()
    binary = ctx.compile_harness(["vf_solve.c"], "vf_solve", mode="san")
    env = ctx.san_env()
    quick = ctx.quick()
    dstats = {}
    if ctx.replay and json.load(open(ctx.replay)).get("direct"):
        only = []
        for c in json.load(open(ctx.replay))["direct"]:
            if c.get("kind") == "T": c = dict(c, x=tuple(c["x"]), y=tuple(c["y"]), r=tuple(c["r"]))
            else: c = dict(c, roots=[dict(r, x=tuple(r["x"]), y=tuple(r["y"]), r=tuple(r["r"])) for r in c["roots"]])
            only.append(c)
        dcov = run_direct(ctx, dstats, only=only)
        return ctx.finish("proof", {"evaluations": dcov["touch_cases"] + dcov["state_cases"], "distinct_nontrivial": dcov["touch_cases"] + dcov["state_cases"],
                                    "rule": "replayed direct-call case", "direct_tie": dcov, "samples": dcov["samples"], "trusted_base": ["replay"]}, [])
    if ctx.replay and json.load(open(ctx.replay)).get("reuse"):
        rcov = run_reuse(ctx, only=[c_unjson(c) for c in json.load(open(ctx.replay))["reuse"]])
        return ctx.finish("proof", {"evaluations": rcov["solves"], "distinct_nontrivial": rcov["solves"], "rule": "replayed sequence of solves on one context",
                                    "reuse_tie": rcov, "samples": rcov["samples"], "trusted_base": ["replay"]}, [])
    dcov = None; rcov = None
    if not ctx.replay:
        dcov = run_direct(ctx, dstats)
        rcov = run_reuse(ctx)
    if ctx.replay:
        rp = json.load(open(ctx.replay))
        fr2 = lambda l: [(Fr(a), Fr(b)) for a, b in l] if l else None
        co = fr2(rp.get("coeffs"))
        cases = [{"name": rp["case"], "cls": rp.get("cls") or "replay", "text": rp["text"], "coeffs": co, "roots": fr2(rp.get("roots")),
                  "degree": len(co) - 1 if co else 0, "even": rp.get("even", False),
                  "realcoef": bool(co) and all(x[1] == 0 for x in co), "rational": "Rational;" in rp["text"]}]
        plan = [(cases[0], rp["opts"])]
    else:
        cases = gen_cases(ctx.rng, quick)
        plan = []
        for c in cases:
            k = ctx.pick(9, 27)
            if c["cls"] in ("on-boundary",): k = ctx.pick(6, 18)
            plan += [(c, o) for o in configs_for(c, ctx.rng, k)]
        # deterministic reproductions of the two defects of DESIGN.md section 4 (rows 1 and 11) and the unit-circle family in full
        byname = {c["name"]: c for c in cases}
        for nm in ("x^2+1", "x^2+1.x-2"):
            for a in "us":
                for g in "ci": plan.append((byname[nm], ["-a", a, "-G", g, "-S", "I", "-D", "n"]))
        for c in cases:
            if c["cls"] == "unit-circle-2^-k":
                for a in "us":
                    for s_ in "io":
                        plan.append((c, ["-a", a, "-G", "ci"[len(plan) % 2], "-S", s_, "-D", "n"]))
        # close real pairs: real detection under the classic algorithm, with and without the line set (MP-phase detection)
        plan = [(c, o) for c, o in plan if not c.get("mignotte")]
        for c in cases:
            if c.get("mignotte"):
                for o in (["-a", "u", "-G", "i", "-S", "a", "-D", "r"], ["-a", "u", "-G", "a", "-S", "a", "-D", "r", "-o", "40"],
                          ["-a", "u", "-G", "i", "-S", "u", "-D", "r"], ["-a", "u", "-G", "c", "-S", "r", "-D", "b"],
                          ["-a", "s", "-G", "i", "-S", "l", "-D", "n"]):
                    plan.append((c, o))
        # the scaled family: every search set under both algorithms, goals cycling (reaches the DPE and MP variants)
        plan = [(c, o) for c, o in plan if not c.get("scaled")]
        j = 0
        for c in cases:
            if c.get("scaled"):
                for s_ in "rludioRI":
                    if c.get("rational") and s_ in "RI": continue
                    for a in "us":
                        g = "cia"[j % 3]; j += 1
                        plan.append((c, ["-a", a, "-G", g, "-S", s_, "-D", "n"] + (["-o", "40"] if g == "a" else [])))
        # ordinary inputs with the computation started in the DPE phase (-t d)
        pool = [c for c in cases if c["cls"] in ("off-boundary-complex", "real-coefficients-real+imag+complex-roots", "distance-2^-k-from-boundary", "tiny-parts-both-signs")]
        for c in pool[:ctx.pick(8, 40)]:
            for s_ in ctx.rng.sample("rludio", 3):
                plan.append((c, ["-a", "us"[j % 2], "-G", "cia"[j % 3], "-S", s_, "-D", "n", "-t", "d"])); j += 1
    t_on, t_off = ctx.pick(6, 30), ctx.pick(60, 300)
    jobs = []
    for c, o in plan:
        st_, det_ = opt(o, "-S"), opt(o, "-D")
        # termination is required only when no root lies on the boundary; the property text also exempts imaginary
        # detection ("wherever the solve terminates") and claims real detection for real-coefficient input only
        onb = (c.get("roots") is None or any(on_boundary(st_, z) for z in c["roots"] if z != (F0, F0))
               or det_ in "ib" or st_ == "I" or ((st_ == "R" or det_ == "r") and not c.get("realcoef")))
        jobs.append({"text": c["text"], "opts": o, "timeout": t_on if onb else t_off, "onb": onb})
    ctx.log("running %d solves on %d polynomials" % (len(jobs), len(cases)))
    results = S.run_many(binary, jobs, os.path.join(ctx.scratch, "jobs"), env=env, workers=16)
    ctx.log("solves done")
    stats = collections.Counter(); tally = collections.Counter(); kinds = collections.Counter()
    # ---- one oracle per polynomial, at the resolution its runs need
    per_case = collections.defaultdict(list)
    for idx, ((c, o), r) in enumerate(zip(plan, results)):
        kinds[r.kind] += 1
        if r.kind == "ok": per_case[c["name"]].append(idx)
        elif r.kind == "timeout":
            if jobs[idx]["onb"]:
                stats["timeout-where-termination-is-not-required"] += 1
            else:
                ctx.violation("no-termination:set=%s:goal=%s:alg=%s:detect=%s" % (opt(o, "-S"), opt(o, "-G"), opt(o, "-a"), opt(o, "-D")),
                              "%s: no result within %d s although no root lies on the boundary of the search set, opts %s" % (c["name"], t_off, o),
                              {"case": c["name"], "text": c["text"], "opts": o})
        elif r.kind in ("crash", "sanitizer"):
            # memory / UB faults of the solver are judged by C03 (and C07 for the cluster analysis); counted here
            stats["solve-%s(left to C03)" % r.kind] += 1
        else:
            stats["solve-%s:%s" % (r.kind, re.sub(r"[^A-Za-z /]+", " ", (r.msg or ""))[:60].strip())] += 1
    byname = {c["name"]: c for c in cases}
    names = [nm for nm in per_case if byname[nm].get("coeffs")]
    maxbits = ctx.pick(300, 900)
    targets = []
    for nm in names:
        t = min(e2e.min_radius_log2(S.discs_of(results[i])) for i in per_case[nm]) - 16
        targets.append(max(min(t, -8), -maxbits))
    oracles = [ExactRoots(byname[nm]) if byname[nm].get("scaled") and byname[nm].get("roots") else Oracle(byname[nm]["coeffs"]) for nm in names]
    real = [i for i, o in enumerate(oracles) if isinstance(o, Oracle)]
    oks = [getattr(o, "ok", False) for o in oracles]
    try:
        for i, ok in zip(real, certify_all([oracles[i] for i in real], target_radius_log2=[targets[i] for i in real], workers=16, timeout=300)): oks[i] = ok
    except Exception as e:
        ctx.notes.append("certify_all failed: %r" % (e,))
    ctx.log("certified %d of %d polynomials" % (sum(oks), len(oks)))
    evaluations = 0; nontrivial = set(); samples = []

    def one_case(arg):
        nm, orc, ok, tgt = arg
        c = byname[nm]; st_, ta_, viol = collections.Counter(), collections.Counter(), []
        qinfo = None
        if ok and c.get("even"):
            # q(x) = p(ix): for an even real p this is the real polynomial sum c_{2j} (-1)^j x^{2j}
            qc = [(x[0] * (1 if (k // 2) % 2 == 0 else -1), F0) for k, x in enumerate(c["coeffs"])]
            qo = Oracle(qc)
            try:
                if qo.certify(min(tgt, -80)):
                    qinfo = [(t["re"], t["radius"]) for t, fl in zip(qo.roots, qo.real_flags()) if fl and t["mult"] == 1]
            finally:
                qo.close()
        facts = root_facts(c, orc, qinfo) if ok else None
        if ok:
            st_["roots-identified-exactly"] += sum(1 for f in facts if f["exact"]); st_["roots-by-oracle-sides"] += sum(1 for f in facts if not f["exact"])
        for idx in per_case[nm]:
            judge(viol, c, plan[idx][1], results[idx], orc if ok else None, facts, st_, ta_)
        orc.close()
        return st_, ta_, viol

    outs = e2e.par_map(one_case, list(zip(names, oracles, oks, targets)), workers=16)
    for (nm, orc, ok), (st_, ta_, viol) in zip(zip(names, oracles, oks), outs):
        stats.update(st_); tally.update(ta_)
        for sig, what, rp in viol: ctx.violation(sig, what, rp)
        c = byname[nm]
        for idx in per_case[nm]:
            o = plan[idx][1]; r = results[idx]
            evaluations += 1
            if (ok and opt(o, "-S") != "a") or opt(o, "-D") != "n": nontrivial.add((nm, tuple(o)))
            if ok and len(samples) < 5 and opt(o, "-S") != "a" and r.roots and idx % 7 == 0:
                samples.append({"case": nm, "class": c["cls"], "opts": " ".join(o), "inclusion": [INC[x.inclusion] for x in r.roots][:8],
                                "attrs": [S.ATTRS[x.attrs] for x in r.roots][:8], "phase": PH.get(r.meta.get("lastphase")), "output": r.output[:80]})
    # replayed foreign case without coefficients: bookkeeping checks only
    for idx, ((c, o), r) in enumerate(zip(plan, results)):
        if r.kind == "ok" and not c.get("coeffs"):
            viol = []
            judge(viol, c, o, r, None, None, stats, tally); evaluations += 1
            for sig, what, rp in viol: ctx.violation(sig, what, rp)
    ctx.log("judged %d runs" % evaluations)
    hist = lambda key: dict(collections.Counter(key(c, o) for c, o in plan))
    dn = (dcov["touch_cases"] + dcov["state_cases"]) if dcov else 0
    if rcov: dn += rcov["solves"]
    cov = {"evaluations": evaluations + dn, "distinct_nontrivial": len(nontrivial) + dn,
           "direct_tie": dict(dcov or {}, **dstats), "reuse_tie": rcov or {},
           "rule": "end to end: a case is (polynomial, option vector), distinct by both, non-trivial when the search set is restricted (certified polynomial) or detection is on; direct tie: a case is one generated touch triple or one hand-built state (all distinct by construction of the generator, all aimed at a boundary)",
           "solves": len(jobs), "solve_outcomes": dict(kinds), "polynomials": len(cases), "polynomials_certified": int(sum(oks)),
           "claims_judged": dict(stats), "claims_by_set": dict(tally),
           "by_search_set": hist(lambda c, o: opt(o, "-S")), "by_goal": hist(lambda c, o: opt(o, "-G")),
           "by_algorithm": hist(lambda c, o: opt(o, "-a")), "by_detection": hist(lambda c, o: opt(o, "-D")),
           "lastphase_by_set": dict(collections.Counter("%s:%s" % (PH.get(r.meta.get("lastphase"), "?"), opt(o, "-S")) for (c, o), r in zip(plan, results) if r.kind == "ok")),
           "judged_IN_OUT_claims_by_lastphase_and_set": {k[7:]: v for k, v in tally.items() if k.startswith("judged:")},
           "by_class": hist(lambda c, o: c["cls"]), "degree_histogram": dict(collections.Counter(c["degree"] for c in cases)),
           "samples": samples,
           "trusted_base": ["Coq 8.16.1 kernel; C08 theorems use the stdlib real-number axioms only (see axioms_used); the root oracle's theorems are axiom-free",
                            "extraction (ExtrOcamlBasic, ExtrOcamlNativeString) + ocaml/cert_driver.ml (oracle)",
                            "harness/vf_solve.c export + lib/solve.py parser; lib/oracle.py client; mpmath/sympy only as untrusted hint provider",
                            "polynomials with roots scaled beyond the double range (class scaled-beyond-double-range) are judged without the oracle: the input is re-verified to be lead*prod(x - z_j) for the constructed exact roots and every containment / side test is exact rational arithmetic in Python",
                            "Python Fractions: identification of a certified root with a constructed exact root (the root lies in the certified tiny disc holding exactly mult roots), sign tests on exact rationals",
                            "direct tie: harness/c08_incl.c (hand-built mps_context: roots, radii, prior inclusion/attrs, clusterization, zero_roots, sep, lmax_coeff, structure, search set, detection bits; it re-evaluates the six side expressions of the switch and the two radius tests with the same library calls as inclusion.c / modify.c, and these replicas are trusted); ocaml/incl_driver.ml (hand-written plumbing, zarith for decimal input only)",
                            "sequence tie: harness/c08_reuse.c (one context, mps_context_set_input_poly + mps_mpsolve per step, integer coefficients through mps_monomial_poly_set_coefficient_int; exports root[i] fields exactly); the polynomials are products of d x - (a + i b) built in Python, roots (a + i b) / d exact",
                            "variant m: mpc_mod inside mps_mtouchunit and the multiprecision unit-circle side test are not modelled bit for bit (their outcomes are inputs of the model in states; the touch outcome is modelled only for centres on an axis whose square fits the precision); libm log of the radius tests is not modelled (outcomes are inputs)",
                            "the shipped unit-circle touch tests are proved sound outside the corner r < 2^-49 and ||z|-1| < 2^-48 (C08_{f,d}touch_unit_sound), refuted inside it (C08_{f,d}touchunit_refuted), the repaired ones (fixes/C08_{f,d}unit_allowance.patch) everywhere; mps_mtouchunit only as a decision on a DPE within delta of |z|-1 (C08_mtouch_unit_sound_partial)"]}
    return ctx.finish("proof", cov, ["imaginary/real detection through the separation bound (log r < sep - n lmax) is only validated empirically (theorem C08_sep_branch_partial takes the root bound as hypothesis)",
                                     "termination is only required (and checked, by timeout) when no constructed root lies on the boundary of the search set; for the sets R and I a root in the set counts as on the boundary",
                                     "crashes / sanitizer reports of the solver itself are counted, not reported (C03, C07)"])
