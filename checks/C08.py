"""C08 - search set, counting and root-attribute classification is sound.

Theorems (coq/Props/Properties_C08.v): the exact touch predicates imply that the whole disc lies strictly on
one side of the axis / unit circle; the model of mps_{f,d,m}update_inclusions only classifies IN (OUT) discs all
of whose points are strictly inside (outside) the set; the three counts add up to n + zero_roots and the listing
filter omits exactly the OUT roots; a real polynomial's isolated root whose disc meets the real axis is real.

Tie, on every run: real solves (harness/vf_solve.c) over search sets x goals x algorithms x detection modes on
polynomials with KNOWN exact roots (and random ones).  The input polynomial is certified by the proved-sound
root oracle (bin/cert); each returned disc is matched to the certified roots it certainly contains
(Oracle.cover); a certified root is identified with a constructed exact root when that root lies in its tiny
disc (then sides / reality are decided by exact rational arithmetic), else Oracle.sides / real_flags decide.
A VIOLATION is reported only for a certified fact contradicting a claim of the implementation:
  IN  but the root is not strictly inside the set   /  OUT but the root is not strictly outside,
  attrs REAL (IMAG) on a root that is not real (not purely imaginary), NOT_REAL on a real root,
  printed counts that do not add up to the degree or disagree with the exported statuses,
  a listing whose number of lines is not zero_roots(unless set 'o') + #{inclusion != OUT},
  no termination although no root lies on the boundary of the search set.
Undecided oracle answers are counted, never reported."""
import os, re, json, collections
from fractions import Fraction as Fr
import vf, solve as S, polygen as G, e2e
from oracle import Oracle, certify_all

SETS = "arludioRI"
SETNAME = {"a": "plane", "r": "right", "l": "left", "u": "upper", "d": "lower", "i": "unit-in", "o": "unit-out", "R": "real", "I": "imag"}
PH = {0: "none", 1: "float", 2: "dpe", 3: "mp"}
INC = S.INCLUSION
F0 = Fr(0)


# ----------------------------------------------------------------------------- exact facts about one root
def sgn(x): return "+" if x > 0 else "-" if x < 0 else "B"


def info_exact(z):
    return {"re": sgn(z[0]), "im": sgn(z[1]), "unit": sgn(z[0] * z[0] + z[1] * z[1] - 1), "real": z[1] == 0, "imag": z[0] == 0, "exact": True}


def strictly_inside(st, f):
    """True / False / None (undecided) : the root lies strictly inside search set st"""
    def side(kind, want):
        s = f[kind]
        if s == "0": return None
        return s == want
    if st == "a": return True
    if st == "r": return side("re", "+")
    if st == "l": return side("re", "-")
    if st == "u": return side("im", "+")
    if st == "d": return side("im", "-")
    if st == "i": return side("unit", "-")
    if st == "o": return side("unit", "+")
    if st == "R": return f["real"]
    if st == "I": return f["imag"]


def strictly_outside(st, f):
    opp = {"r": "l", "l": "r", "u": "d", "d": "u", "i": "o", "o": "i"}
    if st == "a": return False
    if st in opp: return strictly_inside(opp[st], f)
    v = f["real"] if st == "R" else f["imag"]
    return None if v is None else (not v)


def on_boundary(st, z):
    """exact root z lies on the boundary of the set (termination is then not required).  For the two
    lines the set is its own boundary."""
    f = info_exact(z)
    if st == "a": return False
    if st in "rl": return f["re"] == "B"
    if st in "ud": return f["im"] == "B"
    if st in "io": return f["unit"] == "B"
    if st == "R": return f["real"]
    if st == "I": return f["imag"]


# ----------------------------------------------------------------------------- generators
def P2(k): return Fr(1, 1 << k)


def _mk(name, cls, roots, rng, lead=1, zero=0):
    roots = [(Fr(a), Fr(b)) for a, b in roots]
    rational = rng.random() < 0.2
    c = G.from_roots_case(name, cls, roots + [(F0, F0)] * zero, rng, lead=lead, kind=None if rational else "Integer")
    c["realcoef"] = all(x[1] == 0 for x in c["coeffs"])
    c["rational"] = "Rational;" in c["text"]
    return c


def conj_close(roots):
    out = []
    for z in roots:
        out.append(z)
        if z[1] != 0: out.append((z[0], -z[1]))
    return out


def rnd_off(rng, den=None):
    """a Gaussian rational off both axes and off the unit circle"""
    while True:
        d = den or rng.choice([1, 2, 3, 4, 5, 8])
        z = (Fr(rng.randint(-3 * d, 3 * d), d), Fr(rng.randint(-3 * d, 3 * d), d))
        if z[0] != 0 and z[1] != 0 and z[0] ** 2 + z[1] ** 2 != 1: return z


PYTH = [(Fr(3, 5), Fr(4, 5)), (Fr(-5, 13), Fr(12, 13)), (Fr(8, 17), Fr(-15, 17)), (Fr(1), F0), (F0, Fr(1)), (Fr(-1), F0), (F0, Fr(-1))]


def gen_cases(rng, tier_quick):
    cs = []
    nrep = 6 if tier_quick else 40
    for i in range(nrep):                                            # generic, complex coefficients
        cs.append(_mk("offb%d" % i, "off-boundary-complex", list({rnd_off(rng) for _ in range(rng.randint(2, 7))}), rng))
    for i in range(nrep):                                            # real coefficients: conjugate pairs + real roots
        rs = conj_close(list({rnd_off(rng) for _ in range(rng.randint(1, 3))}))
        rs += list({(Fr(rng.choice([-1, 1]) * rng.randint(1, 9), rng.choice([2, 3, 5, 7])), F0) for _ in range(rng.randint(1, 3))})
        if rng.random() < 0.6:                                       # purely imaginary pairs
            b = Fr(rng.randint(1, 9), rng.choice([2, 3, 5]))
            rs += [(F0, b), (F0, -b)]
        cs.append(_mk("realc%d" % i, "real-coefficients-real+imag+complex-roots", rs, rng))
    for i in range(nrep + 2):                                        # distance 2^-k from a boundary
        k = rng.choice([1, 4, 10, 20, 30, 40, 45, 50]) if i >= 3 else [50, 30, 10][i]
        s1, s2 = rng.choice([-1, 1]), rng.choice([-1, 1])
        kind = ["re", "im", "unit", "unitp"][i % 4]
        if kind == "re": near = [(s1 * P2(k), Fr(rng.randint(1, 3)) * s2), (-s1 * P2(k), Fr(rng.randint(1, 3), 2))]
        elif kind == "im": near = [(Fr(rng.randint(1, 3)) * s2, s1 * P2(k)), (Fr(rng.randint(1, 3), 2), -s1 * P2(k))]
        elif kind == "unit": near = [(s2 * (1 + s1 * P2(k)), F0), (F0, s2 * (1 - s1 * P2(k)))]
        else:
            p = rng.choice(PYTH[:3]); near = [(p[0] * (1 + s1 * P2(k)), p[1] * (1 + s1 * P2(k))), (-p[0] * (1 - s1 * P2(k)), p[1] * (1 - s1 * P2(k)))]
        rs = near + list({rnd_off(rng, 2) for _ in range(rng.randint(0, 2))})
        cs.append(_mk("near-%s-k%d-%d" % (kind, k, i), "distance-2^-k-from-boundary", rs, rng))
    # |z| = 1 -+ 2^-53 / 2^-60 on the real axis and in a Pythagorean direction (DPE comparison of |z|-1 with the radius)
    for j, (k, s) in enumerate([(53, -1), (53, 1), (60, 1), (60, -1), (70, 1)] if tier_quick else [(k, s) for k in (53, 54, 60, 64, 70, 90) for s in (-1, 1)]):
        m = 1 + s * P2(k)
        cs.append(_mk("unit%s2^-%d-axis" % ("+" if s > 0 else "-", k), "unit-circle-2^-k", [(m, F0), (-m, F0)], rng))
        p = PYTH[j % 3]
        cs.append(_mk("unit%s2^-%d-pyth" % ("+" if s > 0 else "-", k), "unit-circle-2^-k", [(p[0] * m, p[1] * m), (p[0] * m, -p[1] * m), (Fr(2), F0)], rng))
    # tiny real / imaginary parts of both signs next to roots ON the axis
    for j, k in enumerate([20, 45] if tier_quick else [8, 20, 33, 45, 50]):
        cs.append(_mk("tiny-im-k%d" % k, "tiny-parts-both-signs", [(Fr(1), P2(k)), (Fr(1), -P2(k)), (Fr(-2), P2(k + 3)), (Fr(3), F0)], rng))
        cs.append(_mk("tiny-re-k%d" % k, "tiny-parts-both-signs", [(P2(k), Fr(1)), (-P2(k), Fr(1)), (P2(k + 3), Fr(-2)), (F0, Fr(3))], rng))
    # exactly on a boundary (only soundness is required)
    cs.append(_mk("x^2-1", "on-boundary", [(1, 0), (-1, 0)], rng))
    cs.append(_mk("x^2+1", "on-boundary", [(0, 1), (0, -1)], rng))
    cs.append(_mk("x^2+1.x-2", "on-boundary", [(0, 1), (0, -1), (2, 0)], rng))
    cs.append(_mk("onb-mixed", "on-boundary", [(Fr(3, 5), Fr(4, 5)), (Fr(3, 5), Fr(-4, 5)), (0, 2), (0, -2), (3, 0), (Fr(1, 2), Fr(1, 3)), (Fr(1, 2), Fr(-1, 3))], rng))
    for i in range(2 if tier_quick else 10):
        b = rng.choice(PYTH); rs = [b, (F0, Fr(rng.randint(1, 4))), (Fr(rng.randint(1, 4)), F0)] + [rnd_off(rng) for _ in range(rng.randint(1, 3))]
        cs.append(_mk("onb%d" % i, "on-boundary", list(set(rs)), rng))
    # zero roots (deflated by the solver, accounted for by mps_countroots / mps_output)
    for i in range(3 if tier_quick else 12):
        rs = list({rnd_off(rng) for _ in range(rng.randint(1, 4))})
        if i % 2: rs = conj_close(rs)
        cs.append(_mk("zero%d" % i, "zero-roots", rs, rng, zero=rng.randint(1, 3)))
    # multiple roots off / near / on the boundary
    for i in range(3 if tier_quick else 10):
        z = [rnd_off(rng, 2), (1 + P2(12), F0), (P2(10), Fr(1)), (Fr(1), F0)][i % 4]
        rs = [z] * rng.randint(2, 3) + [rnd_off(rng, 2)]
        cs.append(_mk("mult%d" % i, "multiple-roots", rs, rng))
    # clusters straddling a boundary
    for i, k in enumerate([16, 30] if tier_quick else [8, 16, 24, 30, 40]):
        cs.append(_mk("straddle-im-axis-k%d" % k, "cluster-straddling", [(P2(k), Fr(1)), (-P2(k), Fr(1)), (Fr(2), Fr(1))], rng))
        cs.append(_mk("straddle-unit-k%d" % k, "cluster-straddling", [(1 + P2(k), F0), (1 - P2(k), F0), (F0, Fr(3))], rng))
        cs.append(_mk("straddle-re-axis-k%d" % k, "cluster-straddling", [(Fr(1), P2(k)), (Fr(1), -P2(k)), (Fr(-2), F0)], rng))
    # random integer / rational coefficients (roots only known to the oracle)
    for i in range(6 if tier_quick else 40):
        cplx = i % 3 == 2
        co = G.rand_int_poly(rng, rng.randint(3, 9), rng.choice([3, 8]), cplx) if i % 2 == 0 else G.rand_rat_poly(rng, rng.randint(3, 8), cplx)
        c = G.mono_case("rand%d" % i, "random-%s%s" % ("integer" if i % 2 == 0 else "rational", "-complex" if cplx else ""), co, rng, kind=None if i % 2 == 0 else "Rational")
        c["realcoef"] = not cplx; c["rational"] = "Rational;" in c["text"]; cs.append(c)
    # even real polynomials g(x^2): irrational purely imaginary and real roots
    for i in range(2 if tier_quick else 8):
        g = [(F0 + 1, F0)]
        for a in rng.sample([2, 3, 5, 6, 7], rng.randint(1, 2)): g = S.poly_mul(g, [(Fr(a), F0), (Fr(1), F0)])      # y + a
        if rng.random() < 0.7: g = S.poly_mul(g, [(Fr(-rng.choice([2, 3, 5])), F0), (Fr(1), F0)])                     # y - b
        co = []
        for c_ in g: co += [c_, (F0, F0)]
        c = G.mono_case("even%d" % i, "even-real-irrational-imag-roots", co[:-1], rng); c["realcoef"] = True; c["even"] = True
        cs.append(c)
    # roots scaled far outside the double range: the coefficients overflow / underflow doubles, so the solve starts in the
    # DPE phase (mps_dupdate_inclusions, mps_dtouch*) and may go on to multiprecision; scaling keeps the side of each axis,
    # and the unit-circle cases mix huge and tiny roots
    base_c = [(1, -2), (-2, 3), (3, 1), (-1, -1)]                        # complex coefficients; Re, Im of opposite sign present
    base_r = conj_close([(1, 2), (-2, 3)]) + [(3, 0)]                      # real coefficients
    scales = [("1e120", Fr(10) ** 120), ("2^-400", Fr(1, 1 << 400))] if tier_quick else \
             [("1e120", Fr(10) ** 120), ("2^-400", Fr(1, 1 << 400)), ("2^400", Fr(1 << 400)), ("1e-120", Fr(1, 10 ** 120)), ("1e300", Fr(10) ** 300)]
    for nm, sc in scales:
        for tag, base in (("cplx", base_c), ("real", base_r)):
            c = _mk("scaled-%s-%s" % (nm, tag), "scaled-beyond-double-range", [(a * sc, b * sc) for a, b in base], rng)
            c["scaled"] = True; cs.append(c)
    H = Fr(10) ** 120
    for tag, big, small in (("cplx", [(1, -1), (-2, 1)], [(1, 2), (-1, -3)]), ("real", conj_close([(1, -1)]), conj_close([(-1, 3)]) + [(2, 0)])):
        c = _mk("scaled-unit-mixed-%s" % tag, "scaled-beyond-double-range", [(a * H, b * H) for a, b in big] + [(a / H, b / H) for a, b in small], rng)
        c["scaled"] = True; cs.append(c)
    return cs


def configs_for(case, rng, k, all_sets=False):
    out = []
    sets = list(SETS)
    rng.shuffle(sets)
    for j in range(k):
        st = sets[j % len(sets)]
        g = "cia"[(j + rng.randint(0, 2)) % 3]
        a = "us"[rng.randint(0, 1)]
        d = rng.choice("nnrib") if case.get("realcoef") else rng.choice("nnib")
        if case.get("rational") and rng.random() < 0.9:
            # real/imaginary detection is refused for rational input ("not yet implemented"): keep a few to see the refusal
            d = "n"
            if st in "RI": st = rng.choice("rludio")
        o = ["-a", a, "-G", g, "-S", st, "-D", d]
        if g == "a" and rng.random() < 0.5: o += ["-o", str(rng.choice([20, 40, 80]))]
        out.append(o)
    return out


def opt(o, flag):
    return o[o.index(flag) + 1]


# ----------------------------------------------------------------------------- judging one run
COUNT_RE = re.compile(r"^(\d+) roots are inside;\n(\d+) roots are outside;\n(\d+) roots are uncertain\.\s*$")


def tiny_contains(t, z):
    dx, dy = z[0] - t["re"], z[1] - t["im"]
    return dx * dx + dy * dy <= t["radius"] * t["radius"]


class ExactRoots:
    """Stand-in for the oracle on polynomials far outside its practical range (roots scaled by 10^+-120): the case
    was built as lead * prod (x - z_j) from exact Gaussian rationals; this is re-verified here coefficient by coefficient,
    so the roots and multiplicities are known exactly and every query is plain rational arithmetic."""
    def __init__(self, case):
        cnt = collections.Counter(case["roots"])
        P = S.poly_from_roots(case["roots"])
        lead = case["coeffs"][-1]
        self.ok = len(P) == len(case["coeffs"]) and all(S.cmul(lead, a) == b for a, b in zip(P, case["coeffs"]))
        self.roots = [{"re": z[0], "im": z[1], "radius": F0, "mult": m} for z, m in cnt.items()]
    def sides(self, kind):
        v = {"re": lambda t: t["re"], "im": lambda t: t["im"], "unit": lambda t: t["re"] ** 2 + t["im"] ** 2 - 1}[kind]
        return ["+" if v(t) > 0 else "-" if v(t) < 0 else "0" for t in self.roots]
    def real_flags(self): return [t["im"] == 0 for t in self.roots]
    def cover(self, discs):
        return [[j for j, d in enumerate(discs) if (d[0] - t["re"]) ** 2 + (d[1] - t["im"]) ** 2 <= d[2] * d[2]] for t in self.roots]
    def close(self): pass


def root_facts(case, orc, qinfo):
    """per certified root: side facts (exact when the root is identified with a constructed root)"""
    tiny = orc.roots
    sre, sim, sun, rf = orc.sides("re"), orc.sides("im"), orc.sides("unit"), orc.real_flags()
    facts = []
    known = collections.Counter(case["roots"]) if case.get("roots") else None
    for k, t in enumerate(tiny):
        f = None
        if known is not None:
            inside = [z for z in known if tiny_contains(t, z)]
            if len(inside) == 1 and known[inside[0]] == t["mult"]:
                f = info_exact(inside[0]); f["z"] = inside[0]
        if f is None:
            f = {"re": sre[k], "im": sim[k], "unit": sun[k], "exact": False,
                 "real": True if rf[k] else (False if sim[k] in "+-" else None),
                 "imag": False if sre[k] in "+-" else None}
            if qinfo is not None and t["mult"] == 1 and f["imag"] is None:
                # q(x) = p(ix) is real; a certified REAL root x of q gives the purely imaginary root ix of p
                for (xr, xrad) in qinfo:
                    dx, dy = F0 - t["re"], xr - t["im"]       # i*x = (0, x)
                    if xrad <= t["radius"] and dx * dx + dy * dy <= (t["radius"] - xrad) ** 2:
                        f["imag"] = True; break
        f["mult"] = t["mult"]
        facts.append(f)
    return facts


def judge(viol, case, opts, res, orc, facts, stats, tally):
    st, goal, alg, det = opt(opts, "-S"), opt(opts, "-G"), opt(opts, "-a"), opt(opts, "-D")
    rp = {"case": case["name"], "text": case["text"], "opts": opts, "cls": case.get("cls"), "even": bool(case.get("even")),
          "coeffs": [[str(a), str(b)] for a, b in case["coeffs"]] if case.get("coeffs") else None,
          "roots": [[str(a), str(b)] for a, b in case["roots"]] if case.get("roots") else None}
    zr = res.meta.get("zero_roots", 0); n = res.meta["n"]
    ph = PH.get(res.meta.get("lastphase"), "?")
    inc = [r.inclusion for r in res.roots]; att = [r.attrs for r in res.roots]
    # ---- counts and listing (pure bookkeeping on the exported statuses)
    nin, nout, nunk = inc.count(1), inc.count(2), inc.count(0)
    if goal == "c":
        m = COUNT_RE.match(res.output.strip() + "\n") or COUNT_RE.match(res.output)
        if not m:
            viol.append(("count-output-format", "goal count: output is not the three count lines: %r" % res.output[:200], rp))
        else:
            c = [int(m.group(1)), int(m.group(2)), int(m.group(3))]
            exp = [nin + (zr if st != "o" else 0), nout + (zr if st == "o" else 0), nunk]
            tally["count-outputs"] += 1
            if sum(c) != n + zr or (res.parsed_degree is not None and sum(c) != res.parsed_degree):
                viol.append(("count-sum:set=%s" % st, "%s: printed counts %s do not add up to the degree %d (n=%d, zero roots=%d), opts %s" % (case["name"], c, n + zr, n, zr, opts), rp))
            elif c != exp:
                viol.append(("count-mismatch:set=%s" % st, "%s: printed counts %s differ from the exported inclusion statuses %s (zero roots=%d), opts %s" % (case["name"], c, exp, zr, opts), rp))
    else:
        lines = [l for l in res.output.split("\n") if l.strip().startswith("(")]
        exp = (zr if st != "o" else 0) + (n - nout)
        tally["listings"] += 1
        if len(lines) != exp:
            viol.append(("listing:set=%s" % st, "%s: listing has %d root lines, expected %d = zero roots (%d, printed unless set o) + roots not reported outside (%d of %d), opts %s" % (case["name"], len(lines), exp, zr, n - nout, n, opts), rp))
    # ---- zero roots are reported inside (outside for set 'o') by mps_countroots / listed by mps_output
    if zr:
        f0 = info_exact((F0, F0))
        ok = strictly_outside(st, f0) if st == "o" else strictly_inside(st, f0)
        tally["zero-root-claims"] += 1
        if not ok:
            viol.append(("zero-root-reported-inside:set=%s" % st, "%s: the root 0 is counted/listed as inside the open set '%s' although it lies on its boundary (mps_countroots adds zero_roots to count[0]), opts %s" % (case["name"], SETNAME[st], opts), rp))
    if orc is None:
        stats["uncertified-run"] += 1; return
    # ---- match discs to certified roots
    discs = S.discs_of(res)
    usable = [j for j, d in enumerate(discs) if d[2] is not None and d[0] is not None]
    # fast exact pre-selection in Python (tiny disc inside the closed query disc: the very test of Oracle.cover);
    # every pair that leads to a VIOLATION is re-confirmed below by the extracted, proved-sound cover query
    tiny = orc.roots
    cov = []
    for t in tiny:
        lst = []
        for jj, j in enumerate(usable):
            d = discs[j]
            if d[2] >= t["radius"]:
                dx, dy, rr = d[0] - t["re"], d[1] - t["im"], d[2] - t["radius"]
                if dx * dx + dy * dy <= rr * rr: lst.append(jj)
        cov.append(lst)
    confirmed = {}
    def confirm(k, j):
        if (k, j) not in confirmed:
            confirmed[(k, j)] = (orc.cover([discs[j]])[k] == [0])
            if not confirmed[(k, j)]: stats["python-preselection-not-confirmed-by-oracle"] += 1
        return confirmed[(k, j)]
    for k, lst in enumerate(cov):
        f = facts[k]
        if not lst: stats["root-not-certainly-in-a-disc"] += 1
        for jj in lst:
            j = usable[jj]
            centre = info_exact((discs[j][0], discs[j][1]))
            # unit-circle sets: a radius below 2^-mpwp means mps_mtouchunit's modulus (computed at s->mpwp bits) is rounding noise
            sub = ":radius<2^-mpwp" if (st in "io" and discs[j][2] < Fr(1, 1 << min(4000, max(1, res.meta.get("mpwp", 64))))) else ""
            tag = "set=%s:alg=%s:phase=%s%s:centre(re%s,im%s,unit%s)" % (st, alg, ph, sub, centre["re"], centre["im"], centre["unit"])
            where = lambda: "%s root %d (disc centre %s, radius %s; certified root ~ %s%s), opts %s" % (
                case["name"], j, e2e.fdisc(discs[j])[:2], e2e.fdisc(discs[j])[2], e2e.fdisc((orc.roots[k]["re"], orc.roots[k]["im"], F0))[:2],
                " = %s exactly" % (tuple(str(x) for x in f["z"]),) if f.get("z") else "", opts)
            # inclusion claim
            if inc[j] == 1:
                v = strictly_inside(st, f)
                stats["IN:" + ("ok" if v else "undecided" if v is None else "WRONG")] += 1
                tally["claims-IN:" + st] += 1; tally["judged:%s:%s" % (ph, st)] += 1
                if v is False and confirm(k, j):
                    viol.append(("incl:claim=IN:root-not-inside:" + tag, "reported INSIDE the set '%s' but the root is not strictly inside: %s" % (SETNAME[st], where()), dict(rp, root=j)))
            elif inc[j] == 2:
                v = strictly_outside(st, f)
                stats["OUT:" + ("ok" if v else "undecided" if v is None else "WRONG")] += 1
                tally["claims-OUT:" + st] += 1; tally["judged:%s:%s" % (ph, st)] += 1
                if v is False and confirm(k, j):
                    viol.append(("incl:claim=OUT:root-not-outside:" + tag, "reported OUTSIDE the set '%s' but the root is not strictly outside: %s" % (SETNAME[st], where()), dict(rp, root=j)))
            else:
                tally["claims-UNKNOWN:" + st] += 1
            # attribute claim
            a = att[j]
            if a:
                tally["attrs-%s" % S.ATTRS[a]] += 1
                bad = None
                if a == 1: v = f["real"]; bad = "REAL but the root is not real"
                elif a == 2: v = None if f["real"] is None else not f["real"]; bad = "NOT_REAL but the root is real"
                elif a == 3: v = f["imag"]; bad = "IMAG but the root is not purely imaginary"
                elif a == 4: v = None if f["imag"] is None else not f["imag"]; bad = "NOT_IMAG but the root is purely imaginary"
                else: v = None if (f["real"] is None or f["imag"] is None) else (not f["real"] and not f["imag"]); bad = "NOT_REAL_AND_IMAG but the root is real or imaginary"
                stats["attr-%s:%s" % (S.ATTRS[a], "ok" if v else "undecided" if v is None else "WRONG")] += 1
                if v is False and confirm(k, j):
                    viol.append(("attrs:%s:wrong:alg=%s:set=%s:detect=%s:phase=%s" % (S.ATTRS[a], alg, st, det, ph), "flagged %s: %s" % (bad, where()), dict(rp, root=j)))


def run(ctx):
    ctx.prove()
    ctx.proof_violation_if_broken()
    binary = ctx.compile_harness(["vf_solve.c"], "vf_solve", mode="san")
    env = ctx.san_env()
    quick = ctx.quick()
    if ctx.replay:
        rp = json.load(open(ctx.replay))
        fr2 = lambda l: [(Fr(a), Fr(b)) for a, b in l] if l else None
        co = fr2(rp.get("coeffs"))
        cases = [{"name": rp["case"], "cls": rp.get("cls") or "replay", "text": rp["text"], "coeffs": co, "roots": fr2(rp.get("roots")),
                  "degree": len(co) - 1 if co else 0, "even": rp.get("even", False),
                  "realcoef": bool(co) and all(x[1] == 0 for x in co), "rational": "Rational;" in rp["text"]}]
        plan = [(cases[0], rp["opts"])]
    else:
        cases = gen_cases(ctx.rng, quick)
        plan = []
        for c in cases:
            k = ctx.pick(9, 27)
            if c["cls"] in ("on-boundary",): k = ctx.pick(6, 18)
            plan += [(c, o) for o in configs_for(c, ctx.rng, k)]
        # deterministic reproductions of the two defects of DESIGN.md section 4 (rows 1 and 11) and the unit-circle family in full
        byname = {c["name"]: c for c in cases}
        for nm in ("x^2+1", "x^2+1.x-2"):
            for a in "us":
                for g in "ci": plan.append((byname[nm], ["-a", a, "-G", g, "-S", "I", "-D", "n"]))
        for c in cases:
            if c["cls"] == "unit-circle-2^-k":
                for a in "us":
                    for s_ in "io":
                        plan.append((c, ["-a", a, "-G", "ci"[len(plan) % 2], "-S", s_, "-D", "n"]))
        # the scaled family: every search set under both algorithms, goals cycling (reaches the DPE and MP variants)
        plan = [(c, o) for c, o in plan if not c.get("scaled")]
        j = 0
        for c in cases:
            if c.get("scaled"):
                for s_ in "rludioRI":
                    if c.get("rational") and s_ in "RI": continue
                    for a in "us":
                        g = "cia"[j % 3]; j += 1
                        plan.append((c, ["-a", a, "-G", g, "-S", s_, "-D", "n"] + (["-o", "40"] if g == "a" else [])))
        # ordinary inputs with the computation started in the DPE phase (-t d)
        pool = [c for c in cases if c["cls"] in ("off-boundary-complex", "real-coefficients-real+imag+complex-roots", "distance-2^-k-from-boundary", "tiny-parts-both-signs")]
        for c in pool[:ctx.pick(8, 40)]:
            for s_ in ctx.rng.sample("rludio", 3):
                plan.append((c, ["-a", "us"[j % 2], "-G", "cia"[j % 3], "-S", s_, "-D", "n", "-t", "d"])); j += 1
    t_on, t_off = ctx.pick(6, 30), ctx.pick(60, 300)
    jobs = []
    for c, o in plan:
        st_, det_ = opt(o, "-S"), opt(o, "-D")
        # termination is required only when no root lies on the boundary; the property text also exempts imaginary
        # detection ("wherever the solve terminates") and claims real detection for real-coefficient input only
        onb = (c.get("roots") is None or any(on_boundary(st_, z) for z in c["roots"] if z != (F0, F0))
               or det_ in "ib" or st_ == "I" or ((st_ == "R" or det_ == "r") and not c.get("realcoef")))
        jobs.append({"text": c["text"], "opts": o, "timeout": t_on if onb else t_off, "onb": onb})
    ctx.log("running %d solves on %d polynomials" % (len(jobs), len(cases)))
    results = S.run_many(binary, jobs, os.path.join(ctx.scratch, "jobs"), env=env, workers=16)
    ctx.log("solves done")
    stats = collections.Counter(); tally = collections.Counter(); kinds = collections.Counter()
    # ---- one oracle per polynomial, at the resolution its runs need
    per_case = collections.defaultdict(list)
    for idx, ((c, o), r) in enumerate(zip(plan, results)):
        kinds[r.kind] += 1
        if r.kind == "ok": per_case[c["name"]].append(idx)
        elif r.kind == "timeout":
            if jobs[idx]["onb"]:
                stats["timeout-where-termination-is-not-required"] += 1
            else:
                ctx.violation("no-termination:set=%s:goal=%s:alg=%s:detect=%s" % (opt(o, "-S"), opt(o, "-G"), opt(o, "-a"), opt(o, "-D")),
                              "%s: no result within %d s although no root lies on the boundary of the search set, opts %s" % (c["name"], t_off, o),
                              {"case": c["name"], "text": c["text"], "opts": o})
        elif r.kind in ("crash", "sanitizer"):
            # memory / UB faults of the solver are judged by C03 (and C07 for the cluster analysis); counted here
            stats["solve-%s(left to C03)" % r.kind] += 1
        else:
            stats["solve-%s:%s" % (r.kind, re.sub(r"[^A-Za-z /]+", " ", (r.msg or ""))[:60].strip())] += 1
    byname = {c["name"]: c for c in cases}
    names = [nm for nm in per_case if byname[nm].get("coeffs")]
    maxbits = ctx.pick(300, 900)
    targets = []
    for nm in names:
        t = min(e2e.min_radius_log2(S.discs_of(results[i])) for i in per_case[nm]) - 16
        targets.append(max(min(t, -8), -maxbits))
    oracles = [ExactRoots(byname[nm]) if byname[nm].get("scaled") and byname[nm].get("roots") else Oracle(byname[nm]["coeffs"]) for nm in names]
    real = [i for i, o in enumerate(oracles) if isinstance(o, Oracle)]
    oks = [getattr(o, "ok", False) for o in oracles]
    try:
        for i, ok in zip(real, certify_all([oracles[i] for i in real], target_radius_log2=[targets[i] for i in real], workers=16, timeout=300)): oks[i] = ok
    except Exception as e:
        ctx.notes.append("certify_all failed: %r" % (e,))
    ctx.log("certified %d of %d polynomials" % (sum(oks), len(oks)))
    evaluations = 0; nontrivial = set(); samples = []

    def one_case(arg):
        nm, orc, ok, tgt = arg
        c = byname[nm]; st_, ta_, viol = collections.Counter(), collections.Counter(), []
        qinfo = None
        if ok and c.get("even"):
            # q(x) = p(ix): for an even real p this is the real polynomial sum c_{2j} (-1)^j x^{2j}
            qc = [(x[0] * (1 if (k // 2) % 2 == 0 else -1), F0) for k, x in enumerate(c["coeffs"])]
            qo = Oracle(qc)
            try:
                if qo.certify(min(tgt, -80)):
                    qinfo = [(t["re"], t["radius"]) for t, fl in zip(qo.roots, qo.real_flags()) if fl and t["mult"] == 1]
            finally:
                qo.close()
        facts = root_facts(c, orc, qinfo) if ok else None
        if ok:
            st_["roots-identified-exactly"] += sum(1 for f in facts if f["exact"]); st_["roots-by-oracle-sides"] += sum(1 for f in facts if not f["exact"])
        for idx in per_case[nm]:
            judge(viol, c, plan[idx][1], results[idx], orc if ok else None, facts, st_, ta_)
        orc.close()
        return st_, ta_, viol

    outs = e2e.par_map(one_case, list(zip(names, oracles, oks, targets)), workers=16)
    for (nm, orc, ok), (st_, ta_, viol) in zip(zip(names, oracles, oks), outs):
        stats.update(st_); tally.update(ta_)
        for sig, what, rp in viol: ctx.violation(sig, what, rp)
        c = byname[nm]
        for idx in per_case[nm]:
            o = plan[idx][1]; r = results[idx]
            evaluations += 1
            if (ok and opt(o, "-S") != "a") or opt(o, "-D") != "n": nontrivial.add((nm, tuple(o)))
            if ok and len(samples) < 5 and opt(o, "-S") != "a" and r.roots and idx % 7 == 0:
                samples.append({"case": nm, "class": c["cls"], "opts": " ".join(o), "inclusion": [INC[x.inclusion] for x in r.roots][:8],
                                "attrs": [S.ATTRS[x.attrs] for x in r.roots][:8], "phase": PH.get(r.meta.get("lastphase")), "output": r.output[:80]})
    # replayed foreign case without coefficients: bookkeeping checks only
    for idx, ((c, o), r) in enumerate(zip(plan, results)):
        if r.kind == "ok" and not c.get("coeffs"):
            viol = []
            judge(viol, c, o, r, None, None, stats, tally); evaluations += 1
            for sig, what, rp in viol: ctx.violation(sig, what, rp)
    ctx.log("judged %d runs" % evaluations)
    hist = lambda key: dict(collections.Counter(key(c, o) for c, o in plan))
    cov = {"evaluations": evaluations, "distinct_nontrivial": len(nontrivial),
           "rule": "a case is (polynomial, option vector); distinct by both; non-trivial when the search set is restricted (certified polynomial) or detection is on",
           "solves": len(jobs), "solve_outcomes": dict(kinds), "polynomials": len(cases), "polynomials_certified": int(sum(oks)),
           "claims_judged": dict(stats), "claims_by_set": dict(tally),
           "by_search_set": hist(lambda c, o: opt(o, "-S")), "by_goal": hist(lambda c, o: opt(o, "-G")),
           "by_algorithm": hist(lambda c, o: opt(o, "-a")), "by_detection": hist(lambda c, o: opt(o, "-D")),
           "lastphase_by_set": dict(collections.Counter("%s:%s" % (PH.get(r.meta.get("lastphase"), "?"), opt(o, "-S")) for (c, o), r in zip(plan, results) if r.kind == "ok")),
           "judged_IN_OUT_claims_by_lastphase_and_set": {k[7:]: v for k, v in tally.items() if k.startswith("judged:")},
           "by_class": hist(lambda c, o: c["cls"]), "degree_histogram": dict(collections.Counter(c["degree"] for c in cases)),
           "samples": samples,
           "trusted_base": ["Coq 8.16.1 kernel; C08 theorems use the stdlib real-number axioms only (see axioms_used); the root oracle's theorems are axiom-free",
                            "extraction (ExtrOcamlBasic, ExtrOcamlNativeString) + ocaml/cert_driver.ml (oracle)",
                            "harness/vf_solve.c export + lib/solve.py parser; lib/oracle.py client; mpmath/sympy only as untrusted hint provider",
                            "polynomials with roots scaled beyond the double range (class scaled-beyond-double-range) are judged without the oracle: the input is re-verified to be lead*prod(x - z_j) for the constructed exact roots and every containment / side test is exact rational arithmetic in Python",
                            "Python Fractions: identification of a certified root with a constructed exact root (the root lies in the certified tiny disc holding exactly mult roots), sign tests on exact rationals",
                            "the touch tests and update_inclusions are modelled in Coq over exact numbers with abstract touch outcomes; the floating/DPE arithmetic inside the touch tests is validated end to end by the runs, not verified"]}
    return ctx.finish("proof", cov, ["imaginary/real detection through the separation bound (log r < sep - n lmax) is only validated empirically (theorem C08_sep_branch_partial takes the root bound as hypothesis)",
                                     "termination is only required (and checked, by timeout) when no constructed root lies on the boundary of the search set; for the sets R and I a root in the set counts as on the boundary",
                                     "crashes / sanitizer reports of the solver itself are counted, not reported (C03, C07)"])
