"""C17 - printed output is a faithful rendering of the computed results.

Per run: the real mps_output() prints into a memory stream (harness/vf_solve.c after a real solve;
harness/c17_out.c for result states put into the context by hand, aimed at the case splits of
mps_outfloat/mps_outroot).  A Python tokeniser of the six layouts cuts the text into numeric strings;
the EXTRACTED Coq functions (bin/outfmt: decimal_parse / close_b / radius_ge_b / round_sig_checked /
outfloat_plan / line_fields / printed_lines / count_roots of coq/OutFmt/OutModel.v) read them back and
compare exactly with the losslessly exported state of the same context:

 predicate (a violation when false)
  * each printed component is within one unit of its last printed digit of the stored component (close_b);
  * number of printed root lines = zero roots (unless the set is "outside the unit disc") + #{inclusion != OUT},
    zero roots are the literal 0, lines come in s->order[] order;
  * printed radius >= stored radius * (1 - 1e-13)  (full, gnuplot-full);
  * significant digits printed <= requested digits + MARGIN (MARGIN = 10, from mps_outroot's out_digit);
  * goal count: three numbers, summing to the degree, equal to the counts of the exported inclusion states;
  * verbose: the sign of the imaginary part is in the separator.
 correspondence (model = code; reported as correspondence:... when the predicate still holds)
  * compact/bare/verbose: the token is "0.e<l>" resp. round_sig d of the stored value with (l | d) given by
    outfloat_plan for a logarithm within LGTOL of the exact one;
  * per line the kinds of fields equal line_fields; the printed lines equal printed_lines;
  * every radius field, every gnuplot component and every "0.e<l>" equals, character for character, the text the
    extracted DPE model renders (rdpe_out_str(_u) o get_dl, gnuplot_component, zero_exp_code; libm = this machine's).
 DPE printing path on its own (harness/c17_rad.c, ~1500 generated DPEs / mpf values per run): the real rdpe_get_dl,
 rdpe_out_str, rdpe_out_str_u, mpf_get_rdpe against get_dl / rdpe_out_str(_u) / mpf_get_rdpe / gnuplot_component of
 coq/OutFmt/DpeModel.v: (d, l) bit for bit, both texts, the libm values of harness and driver equal and within the
 hypotheses of C17_printed_radius_ge (50-digit reference), the property's radius / one-unit predicates in exact
 rationals and the PROVED lower bound on each case."""
import os, re, sys, json, math, collections
sys.set_int_max_str_digits(0)
from fractions import Fraction as Fr
import vf, solve as S, polygen as G

MARGIN = 10            # mps_outroot: out_digit = (long)(LOG10_2 * output_config->prec) + 10
LGTOL = Fr(1, 10 ** 9)   # bracket around the exact logarithm handed to the model (libm is outside the model)
RADSLACK = (1, 10 ** 13)
FORMATS = ["c", "b", "v", "f", "g", "gf"]
FMTNAME = {"c": "compact", "b": "bare", "v": "verbose", "f": "full", "g": "gnuplot", "gf": "gnuplot-full"}
WHO = {0: "none", 1: "real", 2: "notreal", 3: "imag", 4: "notimag", 5: "notrealimag"}
SET_OUTSIDE_UNIT = 6   # MPS_SEARCH_SET_UNITARY_DISC_COMPL
NUM = r"[-+]?(?:\d+\.?\d*|\.\d+)(?:[ex][-+]?\d+)?"
GF_HEAD = ["# MPSolve output for GNUPLOT", "# Make user that this output is piped into gnuplot using a command like",
           "# mpsolve -Ogf | gnuplot ", "set pointsize 0.3"]
GF_TAIL = ["e", "pause mouse close", "# End of MPSolve GNUPLOT output. If you are seeing this maybe",
           "# you forgot to pipe the ***solve command into gnuplot?"]


class Layout(Exception):
    pass


def sf(x):
    """float for messages only; values outside the double range are shown by their order of magnitude"""
    try:
        return float(x)
    except (OverflowError, ZeroDivisionError):
        import math
        x = Fr(x); sgn = "-" if x < 0 else ""; x = abs(x)
        return "%s~2^%d" % (sgn, x.numerator.bit_length() - x.denominator.bit_length())

def tokenise(fmt, is_count, text):
    """-> ('count', [a, b, c]) or ('roots', [ {fields: [str..], sep: '+'|'-'|None, num: int|None, zero_mark: bool} ])"""
    lines = text.split("\n")
    if lines and lines[-1] == "": lines.pop()
    if fmt == "gf":
        if lines[:4] != GF_HEAD or len(lines) < 9 or not lines[4].startswith("plot '-' title 'Computed roots' with ") or lines[-4:] != GF_TAIL:
            raise Layout("gnuplot-full header/trailer")
        lines = lines[5:-4]
    if is_count:
        pats = [r"^(\d+) roots are inside;$", r"^(\d+) roots are outside;$", r"^(\d+) roots are uncertain\.$"]
        if len(lines) != 3: raise Layout("count goal: %d lines" % len(lines))
        out = []
        for p, ln in zip(pats, lines):
            m = re.match(p, ln)
            if not m: raise Layout("count line %r" % ln)
            out.append(int(m.group(1)))
        return "count", out
    recs = []
    if fmt == "f":
        i = 0
        while i < len(lines):
            if i + 3 >= len(lines) + 0 and not (i + 3 == len(lines)): raise Layout("full: truncated record")
            m = re.match(r"^\((%s), (%s)\)$" % (NUM, NUM), lines[i])
            if not m: raise Layout("full value line %r" % lines[i][:80])
            l2, l3 = lines[i + 1], lines[i + 2]
            l4 = lines[i + 3] if i + 3 < len(lines) else ""
            if l4 != "": raise Layout("full: missing blank line")
            if l3 == " ---":
                if l2 != " 0": raise Layout("full zero record %r" % l2)
                recs.append({"fields": [m.group(1), m.group(2), "0"], "sep": None, "num": None, "status": None})
            else:
                mr = re.match(r"^\s*(%s)$" % NUM, l2); ms = re.match(r"^Status: (.+), (.+), (.+)$", l3)
                if not mr or not ms: raise Layout("full radius/status lines %r %r" % (l2[:60], l3[:60]))
                recs.append({"fields": [m.group(1), m.group(2), mr.group(1)], "sep": None, "num": None, "status": ms.groups()})
            i += 4
        return "roots", recs
    for ln in lines:
        if fmt == "c":
            m = re.match(r"^\((%s), (%s)\)$" % (NUM, NUM), ln)
            if not m: raise Layout("compact line %r" % ln[:80])
            recs.append({"fields": [m.group(1), m.group(2)], "sep": None, "num": None})
        elif fmt == "b":
            m = re.match(r"^(%s) (%s)$" % (NUM, NUM), ln)
            if not m: raise Layout("bare line %r" % ln[:80])
            recs.append({"fields": [m.group(1), m.group(2)], "sep": None, "num": None})
        elif fmt == "v":
            m = re.match(r"^Root\((\d+)\) = (%s) ([+-]) I \* (%s)$" % (NUM, NUM), ln)
            if not m: raise Layout("verbose line %r" % ln[:80])
            recs.append({"fields": [m.group(2), m.group(4)], "sep": m.group(3), "num": int(m.group(1))})
        elif fmt == "g":
            m = re.match(r"^ ?(%s)\t ?(%s)$" % (NUM, NUM), ln)
            if not m: raise Layout("gnuplot line %r" % ln[:80])
            recs.append({"fields": [m.group(1), m.group(2)], "sep": None, "num": None})
        else:
            m = re.match(r"^ ?(%s)\t ?(%s)\t ?(%s)\t ?(%s)$" % (NUM, NUM, NUM, NUM), ln)
            if not m: raise Layout("gnuplot-full line %r" % ln[:80])
            recs.append({"fields": list(m.groups()), "sep": None, "num": None})
    return "roots", recs


def dexp(x):
    """e with 10^(e-1) <= |x| < 10^e (x != 0), exact"""
    x = abs(x)
    e = len(str(x.numerator)) - len(str(x.denominator))
    while Fr(10) ** e <= x: e += 1
    while Fr(10) ** (e - 1) > x: e -= 1
    return e


def log10_fr(x):
    """decimal logarithm of a positive Fraction as a Fraction, accurate to ~1e-13 absolute"""
    v = math.log10(x.numerator) - math.log10(x.denominator)
    return Fr(v)


def exact(o):
    """every stored limb (MVX line) when exported, else the rounded M field"""
    return (getattr(o, "re_exact", o.re), getattr(o, "im_exact", o.im))


def qs(x): return "%d\t%d" % (x.numerator, x.denominator)


class Case:
    """one printed context: how to run it, and the result"""
    def __init__(self, name, kind, fmt, goal, digits, desc):
        self.name, self.kind, self.fmt, self.goal, self.digits, self.desc = name, kind, fmt, goal, digits, desc
        self.res = None


# ----------------------------------------------------------------------------- injected states (harness/c17_out.c)
def dy(x, bits=None):
    """Fraction (dyadic) -> 'mant exp2' """
    x = Fr(x)
    den = x.denominator
    assert den & (den - 1) == 0, "not dyadic"
    return "%d %d" % (x.numerator, -(den.bit_length() - 1))


def near(x10, prec):
    """a dyadic with `prec` bits near the decimal Fraction x10"""
    if x10 == 0: return Fr(0)
    e = 0; a = abs(x10)
    while a >= 1: a /= 2; e += 1
    while a < Fr(1, 2): a *= 2; e -= 1
    m = int(a * (1 << prec))
    v = Fr(m, 1 << prec) * (Fr(2) ** e)
    return v if x10 > 0 else -v


def inj_states(rng, count):
    """targeted result states: list of dict(roots=[(re, im, prec, radm, rade, incl, attrs)], zero, sset, prec_out, order)"""
    out = []
    def root(re_, im_, prec, rad, incl=1, attrs=0):
        # radius as mant*2^e with mant a short decimal double
        rad = Fr(rad); e = 0
        if rad > 0:
            while rad >= 1: rad /= 2; e += 1
            while rad < Fr(1, 2): rad *= 2; e -= 1
        return (near(Fr(re_), prec), near(Fr(im_), prec), prec, float(rad), e, incl, attrs)
    T = Fr(10)
    fixed = [
        # the witness of C17_zero_branch_unit_refuted: component 5 (and 2) with radius 20 -> "0.e0"
        dict(name="zero-branch-abs-ge-1", roots=[root(5, 2, 64, 20), root(-40, 700, 64, 5000)]),
        dict(name="zero-branch-abs-lt-1", roots=[root(Fr(3, 1000), Fr(-7, 10 ** 9), 64, 2), root(Fr(1, 10 ** 30), Fr(1, 2), 128, 1000)]),
        # rounding up across a power of ten
        dict(name="round-up-power-of-ten", roots=[root(Fr(99996, 100000), Fr(-99996, 10 ** 12), 64, Fr(1, 10 ** 4) * Fr(99996, 100000)),
                                                 root(Fr(999999999, 10 ** 6), Fr(9999, 10 ** 4), 128, Fr(1, 10 ** 3))]),
        dict(name="exact-zero-components", roots=[root(0, 3, 64, Fr(1, 10 ** 12)), root(-2, 0, 64, Fr(1, 10 ** 12)), root(0, 0, 64, Fr(1, 10 ** 20))]),
        dict(name="negative-imag", roots=[root(Fr(-3, 2), Fr(-5, 4), 64, Fr(1, 10 ** 9)), root(Fr(7, 8), Fr(-1, 10 ** 40), 256, Fr(1, 10 ** 60))]),
        dict(name="flags-and-inclusion", roots=[root(2, Fr(1, 10 ** 20), 64, Fr(1, 10 ** 10), 1, 1), root(Fr(1, 10 ** 18), -3, 64, Fr(1, 10 ** 10), 0, 3),
                                                root(5, 5, 64, Fr(1, 10 ** 10), 2, 0), root(-1, 1, 64, Fr(1, 10 ** 10), 1, 2)], zero=2, order=[3, 1, 0, 2]),
        dict(name="outside-unit-disc-set", roots=[root(2, 1, 64, Fr(1, 10 ** 10), 1, 0), root(Fr(1, 2), 0, 64, Fr(1, 10 ** 10), 2, 0)], zero=3, sset=SET_OUTSIDE_UNIT),
        dict(name="huge-exponents", roots=[root(T ** 400 * 3, -T ** 390, 256, T ** 380), root(Fr(7, T ** 500), Fr(1, T ** 503), 256, Fr(1, T ** 520))]),
        dict(name="many-digits", roots=[root(Fr(1, 3), Fr(-2, 7), 2000, Fr(1, T ** 590)), root(Fr(10, 3), Fr(2, 7), 800, Fr(1, T ** 230))], prec_out=700),
        dict(name="zero-roots-only-first", roots=[root(1, 1, 64, Fr(1, 10 ** 10))], zero=1),
    ]
    out.extend(fixed)
    k = 0
    while len(out) < count:
        k += 1
        n = rng.randint(1, 6); roots = []
        for _ in range(n):
            prec = rng.choice([53, 64, 128, 256, 1024])
            sc = T ** rng.choice([-40, -6, -1, 0, 0, 1, 3, 25])
            def comp():
                t = rng.random()
                if t < 0.12: return Fr(0)
                if t < 0.3:   # about to round up across a power of ten
                    nd = rng.randint(1, 12)
                    return (1 - Fr(rng.randint(1, 4), T ** (nd + 1))) * T ** rng.randint(-3, 3) * rng.choice([1, -1])
                return Fr(rng.randint(-10 ** 9, 10 ** 9), 10 ** 9) * sc * T ** rng.randint(-8, 8)
            re_, im_ = comp(), comp()
            mod = max(abs(re_), abs(im_), Fr(1, T ** 50))
            rad = mod * T ** (-rng.choice([-2, -1, 0, 1, 2, 4, 7, 12, 15, 16, 18, 30, 60]))
            attrs = rng.choice([0, 0, 0, 0, 1, 2, 3, 4, 5])
            # the solver flags a root real (imaginary) only when its disc meets the axis
            if attrs == 1: im_ = rad * Fr(rng.randint(-1000, 1000), 1001)
            if attrs == 3: re_ = rad * Fr(rng.randint(-1000, 1000), 1001)
            roots.append(root(re_, im_, prec, rad, rng.choice([0, 1, 1, 1, 2]), attrs))
        order = list(range(n)); rng.shuffle(order)
        out.append(dict(name="rand%d" % k, roots=roots, zero=rng.choice([0, 0, 1, 3]), sset=rng.choice([0, 0, 0, 1, 5, SET_OUTSIDE_UNIT, 7]),
                        prec_out=rng.choice([17, 53, 167, 665]), order=order))
    return out[:count]


def state_text(st):
    lines = []
    for (re_, im_, prec, rm, re2, incl, attrs) in st["roots"]:
        lines.append("R %s %s %d %r %d %d %d" % (dy(re_), dy(im_), prec, rm, re2, incl, attrs))
    if st.get("order"): lines.append("O " + " ".join(map(str, st["order"])))
    return "\n".join(lines) + "\n"


# ----------------------------------------------------------------------------- the DPE printing path (harness/c17_rad.c)
import struct, decimal
EXACT_ESP = 200000         # |esp| up to which the predicates are evaluated on exact rationals (beyond: 60-digit logarithms)
ULOG = Fr(1, 2 ** 53)      # hypotheses of C17_printed_radius_ge_1ulp: log10 on [1/2, 1) within 2^-53 absolute (two ulps of a result in
UPOW = Fr(1, 2 ** 52)      # [1/4, 1/2)), pow (10, .) within 2^-52 relative (one ulp at worst), at the points used
LN10_UP = Fr(2302585093, 10 ** 9)

def dbits(x): return "%016x" % struct.unpack("<Q", struct.pack("<d", x))[0]
def bits_fr(h):
    """IEEE bits (hex) -> exact Fraction (finite values)"""
    u = int(h, 16); sgn = -1 if u >> 63 else 1; e = (u >> 52) & 0x7ff; m = u & ((1 << 52) - 1)
    if e == 0: return sgn * Fr(m, 1 << 1074)
    return sgn * Fr((m | (1 << 52)) << max(e - 1075, 0), 1 << max(1075 - e, 0))
def fr_pow(b, e): return Fr(b ** e) if e >= 0 else Fr(1, b ** (-e))
def mant_bits(num):
    """53-bit integer -> hex bits of the double num / 2^53 (in [1/2, 1))"""
    assert (1 << 52) <= num < (1 << 53)
    return "%016x" % ((1022 << 52) | (num - (1 << 52)))

def gen_dpes(rng, count):
    """(mantissa bits, esp, class) aimed at the case splits of get_dl / the proofs"""
    out = []
    def add(num, esp, cls, neg=False):
        h = mant_bits(num)
        if neg: h = "%016x" % (int(h, 16) | (1 << 63))
        out.append((h, esp, cls))
    def rmant():
        t = rng.random()
        if t < 0.06: return 1 << 52
        if t < 0.12: return (1 << 53) - 1 - rng.randint(0, 3)
        if t < 0.25: return max(1 << 52, min((1 << 53) - 1, (rng.randint(5 * 10 ** 5, 10 ** 6 - 1) << 53) // 10 ** 6))     # short decimal mantissas
        return rng.randint(1 << 52, (1 << 53) - 1)
    LMAX = 2 ** 63 - 1
    fixed = [(1 << 52, 1, "one"), (1 << 52, 0, "half"), ((1 << 53) - 1, 0, "below-one"), (1 << 52, LMAX, "long-max"), (1 << 52, -LMAX - 1, "long-min"),
             ((1 << 53) - 1, LMAX, "long-max"), (8405160066430185, -1003, "coq-witness-1e13"), (5 << 50, 4, "ten"), (4644686967134476 // 2 * 2, 80, "coq-witness-gnuplot(as DPE)")]
    for num, e, cls in fixed: add(num, e, cls)
    out.append(("0" * 16, 0, "zero"))
    # exact powers of ten and their neighbours: 10^k = m * 2^e
    for k in list(range(-30, 31)) + [rng.randint(-320, 320) for _ in range(60)] + [rng.choice([-1, 1]) * rng.randint(900, 40000) for _ in range(30)]:
        x = fr_pow(10, k); e = 0
        e = x.numerator.bit_length() - x.denominator.bit_length()
        while fr_pow(2, e) <= x: e += 1
        while fr_pow(2, e - 1) > x: e -= 1
        num = int(x / fr_pow(2, e) * (1 << 53))          # truncated 53-bit mantissa of 10^k
        for j in (rng.sample(range(-6, 7), 2) + [rng.choice([0, -1, 1])]):
            n2 = num + j; e2 = e
            if n2 < (1 << 52): n2 = (1 << 53) - 1; e2 = e - 1
            if n2 >= (1 << 53): n2 = 1 << 52; e2 = e + 1
            add(n2, e2, "near-power-of-ten", neg=rng.random() < 0.1)
    while len(out) < count:
        t = rng.random()
        if t < 0.30: e = rng.randint(-60, 60); cls = "exp-small"
        elif t < 0.55: e = rng.randint(-1074, 1023); cls = "exp-double-range"
        elif t < 0.75: e = rng.choice([-1, 1]) * rng.randint(1024, 10 ** 5); cls = "exp-beyond-double"
        elif t < 0.85: e = rng.choice([-1, 1]) * rng.randint(10 ** 5, EXACT_ESP); cls = "exp-1e5"
        elif t < 0.93: e = rng.choice([-1, 1]) * rng.randint(10 ** 6, 2 ** 53); cls = "exp-huge(<2^53)"
        else: e = rng.choice([-1, 1]) * rng.randint(2 ** 53, LMAX); cls = "exp-huge(>=2^53)"
        add(rmant(), e, cls, neg=rng.random() < 0.12)
    return out[:count]

def gen_mpfs(rng, count):
    """(kind M|G, mantissa integer, exp2, prec, class)"""
    out = [("M", 0, 0, 64, "zero"), ("G", 0, 0, 64, "zero"), ("M", 1, 0, 64, "one"), ("G", 1, 0, 64, "one"), ("G", 10 ** 22, 0, 128, "power-of-ten"),
           ("G", 623399332000000040000000, 0, 128, "coq-witness-gnuplot"), ("M", (1 << 200) - 1, -300, 256, "all-ones"), ("G", (1 << 64) - 1, -64, 64, "all-ones")]
    while len(out) < count:
        prec = rng.choice([53, 64, 64, 128, 192, 256, 1024])
        t = rng.random()
        nb = rng.randint(1, prec)
        if t < 0.2: m = (1 << nb) - 1 - rng.randint(0, 3); cls = "all-ones"          # truncation and rounding to 53 bits differ
        elif t < 0.35: m = (1 << (nb - 1)) + rng.randint(0, 3); cls = "power-of-two+"
        elif t < 0.5: m = rng.randint(1, 10 ** rng.randint(1, 25)); cls = "decimal"
        else: m = rng.getrandbits(nb) | 1; cls = "random"
        m = max(m, 1)
        e2 = rng.choice([0, 0, -nb, rng.randint(-300, 300), rng.randint(-5000, 5000), 64 * rng.randint(-40, 40) - rng.choice([0, 1, 63])])
        if rng.random() < 0.25: m = -m
        out.append((rng.choice(["M", "G", "G"]), m, e2, prec, cls))
    return out[:count]

def text_value(tok):
    """' 0.67262326287591x-043' -> (signed units N, l) : value = N * 10^(l-14)"""
    m = re.match(r"^([ -])(\d+)\.(\d{14})[xe]([+-]\d{3,})$", tok)
    if not m: return None
    n = int(m.group(2) + m.group(3))
    return (-n if m.group(1) == "-" else n), int(m.group(4))

def dlog10(x, ctxd):
    """log10 of a positive Fraction, 60 digits"""
    return ctxd.log10(decimal.Decimal(x.numerator)) - ctxd.log10(decimal.Decimal(x.denominator))

def rad_tie(ctx, rad, env, stats, only=None):
    """harness/c17_rad.c against the extracted DPE model.  Returns a coverage dict."""
    rng = ctx.rng
    dctx = decimal.Context(prec=60)
    D = decimal.Decimal
    if only is not None:
        dp = [tuple(x) for x in only.get("dpes", [])]; mp = [tuple(x) for x in only.get("mpfs", [])]
    else:
        dp = gen_dpes(rng, ctx.pick(1000, 6000)); mp = gen_mpfs(rng, ctx.pick(500, 3000))
    hin = ["D %s %d" % (h, e) for (h, e, _) in dp] + ["%s %d %d %d" % (k, m, e2, pr) for (k, m, e2, pr, _) in mp]
    rc, out, err = vf.sh([rad], input="\n".join(hin) + "\n", timeout=600, env=env)
    if rc != 0:
        m = re.search(r"(SUMMARY: .*|runtime error: .*)", err)
        ctx.violation("crash:dpe-printing:%s" % (m.group(1)[:90] if m else "rc=%s" % rc), "the DPE printing path ends in a crash / sanitizer report on generated input",
                      {"kind": "dpe", "dpes": dp[:50], "mpfs": mp[:50], "stderr": err[-1500:]})
        return {"dpe_cases": 0}
    hout = out.split("\n")[:len(hin)]
    if len(hout) != len(hin): raise vf.InfraError("c17_rad returned %d lines for %d" % (len(hout), len(hin)))
    # model queries: DL for the D lines; MPFRDPE / GNU on the EXPORTED limbs for the M / G lines
    def exact_of(tok):
        h, e = tok.split(":"); m = int(h, 16); e = int(e)
        return Fr(m * (1 << e)) if e >= 0 else Fr(m, 1 << (-e))
    q = ["DL\t%s\t%d" % (h, e) for (h, e, _) in dp]
    mvals = []
    for (k, m, e2, pr, _), ln in zip(mp, hout[len(dp):]):
        f = ln.split("\t"); v = exact_of(f[-1]); mvals.append(v)
        q.append(("MPFRDPE\t%s" if k == "M" else "GNU\t%s") % qs(v))
    ans = ctx.run_model_lines("outfmt", q)
    cls_hist = collections.Counter(c for (_, _, c) in dp); cls_hist.update("mpf:" + c for (*_, c) in mp)
    cov = {"dpe_cases": len(dp), "mpf_cases": len(mp), "input_classes": dict(cls_hist)}
    worst = {"log10_err_ulps": 0.0, "pow_err_ulps": 0.0, "radius_deficit": 0.0, "bound_margin_min": None}
    agree = 0; judged = collections.Counter()
    def rp(i): return {"kind": "dpe", "dpes": [list(dp[i])], "mpfs": []}
    for i, ((h, esp, cls), hl, ml) in enumerate(zip(dp, hout, ans)):
        hf = hl.split("\t"); mf = ml.split("\t")
        if hf[0] != "D" or len(hf) != 8 or len(mf) != 7:
            raise vf.InfraError("c17_rad / outfmt line format: %r / %r" % (hl[:200], ml[:200]))
        _, hd, hlx, hlg, hfr, hpw, htx, htu = hf
        md, mlx, mlg, mfr, mtx, mtu, munits = mf
        m = bits_fr(h)
        same = (hd == md and hlx == mlx and htx == mtx and htu == mtu)
        nz = lambda b: "0" * 16 if b == "8" + "0" * 15 else b          # modf delivers -0.0 for a negative integer: the same number
        libm_same = (m == 0) or (hlg == mlg and nz(hfr) == nz(mfr) and hpw[1:] == md[1:])
        # ---- the property's predicates on what the REAL code printed (exact)
        bad = None
        tv = text_value(htx); tu = text_value(htu)
        if tv is None or tu is None or tv != tu:
            ctx.violation("layout:dpe:number", "rdpe_out_str / rdpe_out_str_u wrote %r / %r for the DPE %s:%d: not the layout %% 16.14f[xe]%%+04li" % (htx, htu, h, esp), rp(i))
            continue
        N, l = tv
        if m != 0:
            sign_ok = (N == 0) or ((m > 0) == (N > 0))
            if abs(esp) <= EXACT_ESP:
                stored = abs(m) * fr_pow(2, esp); printed = abs(N) * fr_pow(10, l - 14)
                mag_rel = (printed - stored) / stored          # signed relative deviation of the printed magnitude
                unit_ok = abs(printed - stored) <= fr_pow(10, l - 14)
                judged["exact-rationals"] += 1
            else:
                la = dlog10(abs(m), dctx) + D(esp) * dctx.log10(D(2))
                if N == 0: mag_rel = Fr(-1)
                else:
                    dlt = (dctx.log10(D(abs(N))) + D(l - 14) - la) * dctx.ln(D(10))
                    mag_rel = Fr(dctx.exp(dlt) - 1) if abs(dlt) < 50 else Fr(10 ** 9 if dlt > 0 else -1)
                unit_ok = None
                judged["60-digit-logarithms"] += 1
            rel = mag_rel
            if not sign_ok:
                ctx.violation("sign:dpe:printed-sign", "DPE %s:%d printed as %r" % (h, esp, htx), rp(i)); continue
            deficit = -mag_rel
            if True:
                if abs(esp) <= 2000: worst["radius_deficit"] = max(worst["radius_deficit"], float(deficit))
                if deficit > Fr(RADSLACK[0], RADSLACK[1]):
                    e10 = abs(l)
                    if deficit <= Fr(max(100, e10), 10 ** 14):
                        ctx.violation("radius:rdpe_out_str-log10-pow-inexact", "rdpe_out_str prints %s for the DPE %s:%d: smaller than stored by %.3g relative (> 1e-13), within the error of rdpe_get_dl's log10/pow at this exponent"
                                      % (htx.strip(), h, esp, float(deficit)), rp(i))
                        stats["dpe:radius:deficit>1e-13(log10/pow)"] += 1
                    else:
                        ctx.violation("radius:rdpe_out_str:printed-smaller", "rdpe_out_str prints %s for the DPE %s:%d: smaller than stored by %.3g relative, beyond print rounding and beyond the log10/pow error" % (htx.strip(), h, esp, float(deficit)), rp(i))
                else: stats["dpe:radius:ge-stored*(1-1e-13)"] += 1
            if unit_ok is not None:
                if not unit_ok:
                    e10 = abs(l)
                    if abs(rel) <= Fr(max(100, e10), 10 ** 14):
                        ctx.violation("close:gnuplot:rdpe_out_str_u-last-digits-inexact", "rdpe_out_str_u prints %s for the DPE %s:%d: more than one unit of the last digit from the stored value (relative %.3g)" % (htu.strip(), h, esp, float(abs(rel))), rp(i))
                        stats["dpe:unit:off(log10/pow)"] += 1
                    else:
                        ctx.violation("close:gnuplot:far-off", "rdpe_out_str_u prints %s for the DPE %s:%d: relative deviation %.3g" % (htu.strip(), h, esp, float(abs(rel))), rp(i))
                else: stats["dpe:unit:within-one-unit"] += 1
            # ---- libm against the reference, in units of 2^-53 relative
            lg = bits_fr(hlg); fr_ = bits_fr(hfr); pw = bits_fr(hpw)
            lref = dlog10(abs(m), dctx)
            worst["log10_err_ulps"] = max(worst["log10_err_ulps"], float(abs(D(lg.numerator) / D(lg.denominator) - lref) * D(2) ** 53))
            pref = dctx.power(D(10), D(fr_.numerator) / D(fr_.denominator))
            worst["pow_err_ulps"] = max(worst["pow_err_ulps"], float(abs((D(pw.numerator) / D(pw.denominator) - pref) / pref) * D(2) ** 53))
            # ---- the proved bound (C17_printed_radius_ge with ulog = 2^-53, upow = 2^-52; any exponent)
            if True:
                Dq = (1 + Fr(1, 2 ** 53)) * ULOG + (abs(esp) + 1) * Fr(5, 4) * Fr(1, 2 ** 53)
                bound = LN10_UP * Dq + UPOW + Fr(5, 10 ** 14)
                margin = bound - deficit
                if worst["bound_margin_min"] is None or margin < worst["bound_margin_min"]: worst["bound_margin_min"] = margin
                if deficit > bound:
                    bad = "the proved bound printed >= stored * (1 - %.3g) fails (deficit %.3g)" % (float(bound), float(deficit))
        if cls == "coq-witness-1e13":
            # C17_printed_radius_1e13_refuted replayed on the real rdpe_out_str: the witness must print as in the theorem and be short by > 1e-13
            ok = (htx == " 0.10886056081147x-301" and hlg == "bf9ec3cc0f84a450" and hpw == "3fbbde4924826ec3" and deficit > Fr(RADSLACK[0], RADSLACK[1]))
            stats["witness:C17_printed_radius_1e13_refuted:" + ("reproduced" if ok else "NOT-reproduced")] += 1
            if not ok:
                ctx.violation("correspondence:witness:C17_printed_radius_1e13_refuted", "the witness of the refutation prints %r (log10 %s, pow %s) on the real code: not what the theorem states" % (htx, hlg, hpw), rp(i), no_input=True)
        if same and libm_same and not bad:
            agree += 1
        else:
            what = bad or ("model (d, l, texts) = (%s, %s, %r, %r), code (%s, %s, %r, %r)" % (md, mlx, mtx, mtu, hd, hlx, htx, htu) if not same else
                           "libm of harness and model driver differ: log10 %s / %s, fraction %s / %s, pow %s / %s" % (hlg, mlg, hfr, mfr, hpw, md))
            ctx.violation("correspondence:rdpe_get_dl", "DPE %s:%d (%s): %s" % (h, esp, cls, what), rp(i), no_input=True)
    magree = 0
    for j, ((k, mm, e2, pr, cls), hl, ml, v) in enumerate(zip(mp, hout[len(dp):], ans[len(dp):], mvals)):
        hf = hl.split("\t")
        rpo = {"kind": "dpe", "dpes": [], "mpfs": [list(mp[j])]}
        if k == "M":
            got = "%s %s" % (hf[1], hf[2])
            mfr_ = bits_fr(hf[1]); e = int(hf[2])
            # predicate: the DPE is the stored value truncated to 53 bits: |v| (1 - 2^-52) < |dpe| <= |v|, same sign
            dv = mfr_ * fr_pow(2, e) if abs(e) < 10 ** 6 else None
            if dv is not None and not (abs(dv) <= abs(v) and abs(dv) * (1 << 52) >= abs(v) * ((1 << 52) - 1) and (dv < 0) == (v < 0)):
                ctx.violation("mpf_get_rdpe:not-a-53-bit-truncation", "mpf_get_rdpe of %s gives %s" % (sf(v), got), rpo)
            elif got != ml:
                ctx.violation("correspondence:mpf_get_rdpe", "mpf %s*2^%d@%d (%s): model %s, code %s" % (mm, e2, pr, cls, ml, got), rpo, no_input=True)
            else: magree += 1
        else:
            tvv = text_value(hf[1])
            if tvv is None:
                ctx.violation("layout:dpe:number", "gnuplot rendering %r of an mpf" % hf[1], rpo); continue
            N, l = tvv
            printed = N * fr_pow(10, l - 14)
            if abs(printed - v) > fr_pow(10, l - 14):
                relv = abs(printed - v) / abs(v) if v != 0 else Fr(1)
                if relv <= Fr(max(100, abs(l)), 10 ** 14):
                    ctx.violation("close:gnuplot:rdpe_out_str_u-last-digits-inexact", "gnuplot rendering of the mpf %s is %s: more than one unit of the last digit off (relative %.3g)" % (sf(v), hf[1].strip(), float(relv)), rpo)
                    stats["dpe:gnuplot-mpf:off(log10/pow)"] += 1
                else:
                    ctx.violation("close:gnuplot:far-off", "gnuplot rendering of the mpf %s is %s" % (sf(v), hf[1].strip()), rpo)
            else: stats["dpe:gnuplot-mpf:within-one-unit"] += 1
            if cls == "coq-witness-gnuplot":
                ok = hf[1] == " 6.23399332000003e+023"
                stats["witness:C17_gnuplot_unit_refuted:" + ("reproduced" if ok else "NOT-reproduced")] += 1
                if not ok:
                    ctx.violation("correspondence:witness:C17_gnuplot_unit_refuted", "the witness of the refutation prints %r on the real code" % hf[1], rpo, no_input=True)
            if hf[1] != ml:
                ctx.violation("correspondence:gnuplot_component", "mpf %s*2^%d@%d (%s): model %r, code %r" % (mm, e2, pr, cls, ml, hf[1]), rpo, no_input=True)
            else: magree += 1
    if worst["log10_err_ulps"] > 1.0 or worst["pow_err_ulps"] > 2.0:
        ctx.violation("correspondence:libm-outside-hypotheses", "this machine's log10 (on [1/2, 1)) / pow (10, .) are off by %.2f units of 2^-53 absolute / %.2f units of 2^-53 relative: beyond the hypotheses (2^-53 absolute, 2^-52 relative) the *_1ulp theorems are instantiated with"
                      % (worst["log10_err_ulps"], worst["pow_err_ulps"]), {"kind": "dpe", "dpes": [], "mpfs": []}, no_input=True)
    cov.update({"dpe_model_agrees_bit_for_bit": agree, "mpf_model_agrees": magree, "judged_by": dict(judged),
                "libm_log10_worst_abs_error_units_of_2^-53(hypothesis<=1)": round(worst["log10_err_ulps"], 3), "libm_pow_worst_rel_error_units_of_2^-53(hypothesis<=2)": round(worst["pow_err_ulps"], 3),
                "largest_radius_deficit_relative(|esp|<=2000)": worst["radius_deficit"],
                "proved_bound_smallest_margin": float(worst["bound_margin_min"]) if worst["bound_margin_min"] is not None else None})
    return cov


# ----------------------------------------------------------------------------- the check
def run(ctx):
    ctx.prove()
    ctx.proof_violation_if_broken()
    vfs = ctx.compile_harness(["vf_solve.c"], "vf_solve", mode="san")
    inj = ctx.compile_harness(["c17_out.c"], "c17_out", mode="san")
    radh = ctx.compile_harness(["c17_rad.c"], "c17_rad", mode="san")
    env = ctx.san_env()
    rng = ctx.rng
    if ctx.replay and json.load(open(ctx.replay)).get("kind") == "dpe":
        st = collections.Counter()
        dcov = rad_tie(ctx, radh, env, st, only=json.load(open(ctx.replay)))
        return ctx.finish("proof", {"evaluations": dcov.get("dpe_cases", 0) + dcov.get("mpf_cases", 0), "distinct_nontrivial": 0, "rule": "replay of one DPE case",
                                    "dpe_path": dcov, "histogram": dict(st), "samples": [], "trusted_base": ["replay"]}, [])
    cases = []        # Case objects
    # ---- (A) real solves: every format x goal x digits, a few search sets / -D flags
    if ctx.replay:
        rp = json.load(open(ctx.replay))
        c = Case(rp["case"], rp["kind"], rp["fmt"], rp["goal"], rp["digits"], rp.get("desc", ""))
        c.run = rp["run"]; cases.append(c)
    else:
        maxdeg = ctx.pick(8, 14)
        pool = [p for p in G.standard_cases(rng, ctx.pick(40, 160), maxdeg=maxdeg) if p["degree"] <= maxdeg * 2]
        def inline(name, expr, cls): return {"name": name, "cls": cls, "inline": expr, "degree": 0}
        specials = [inline("zeros3", "x^5-6*x^4+11*x^3-6*x^2", "zero-roots"), inline("x4m1", "x^4-1", "real-and-imag"),
                    inline("im4", "x^3-3*x^2+4*x-12", "real-and-imag"), inline("zeros-unity", "x^7-x^3", "zero-roots"),
                    inline("wide", "1000000*x^3-1000001*x^2-999999*x+1", "scaled"), inline("negim", "x^2+2*x+5", "complex-pair")]
        per = ctx.pick(3, 12)
        k = 0
        for fmt in FORMATS:
            for goal in ["i", "a", "c"]:
                for digits in [5, 15, 50, 200]:
                    for j in range(per):
                        k += 1
                        p = specials[k % len(specials)] if (j == 0) else pool[(k * 7 + j) % len(pool)]
                        alg = "s" if p["cls"] in ("chebyshev", "secular") else rng.choice(["u", "s"])
                        opts = ["-a", alg, "-G", goal, "-o", str(digits), "-O", fmt]
                        t = rng.random()
                        sset = rng.choice(["r", "l", "u", "d", "i", "o", "R", "I"]) if t < 0.45 else None
                        if sset: opts += ["-S", sset]
                        if rng.random() < 0.3: opts += ["-D", rng.choice(["r", "i", "b"])]
                        # the classic algorithm refuses -D / -S R|I for integer and rational input
                        if ("-D" in opts or sset in ("R", "I")) and alg == "u" and rng.random() < 0.85: opts[1] = "s"
                        c = Case("%s" % p["name"], "solve", fmt, goal, digits, p["cls"])
                        c.run = {"harness": "vf_solve", "opts": opts, "text": p.get("text"), "inline": p.get("inline")}
                        cases.append(c)
        # ---- (B) states put into the context by hand
        for st in inj_states(rng, ctx.pick(34, 300)):
            for fmt in FORMATS:
                goal = "c" if rng.random() < 0.08 else "i"
                po = st.get("prec_out", 53)
                c = Case(st["name"], "state", fmt, goal, int(po * math.log10(2)), "injected")
                c.run = {"harness": "c17_out", "args": [fmt, goal, str(po), str(st.get("sset", 0)), str(st.get("zero", 0))], "stdin": state_text(st)}
                cases.append(c)
    ctx.log("%d printed contexts to run" % len(cases))

    # ---- run them
    work = os.path.join(ctx.scratch, "jobs"); os.makedirs(work, exist_ok=True)
    import time
    def run_one(ic):
        i, c = ic
        t0 = time.time()
        r = c.run
        if r["harness"] == "vf_solve":
            if r.get("inline"):
                res = S.run_solve(vfs, r["inline"], r["opts"], env=env, timeout=ctx.pick(15, 120), inline=True)
            else:
                path = os.path.join(work, "j%d.pol" % i); open(path, "w").write(r["text"])
                res = S.run_solve(vfs, path, r["opts"], env=env, timeout=ctx.pick(15, 120))
        else:
            rc, out, err = vf.sh([inj] + r["args"], input=r["stdin"], timeout=120, env=env)
            if rc != 0:
                res = S.SolveResult(); res.rc = rc; res.stderr = err[-4000:]
                res.kind = "sanitizer" if rc in (97, 98) or "AddressSanitizer" in err or "runtime error:" in err else "crash"
                try: res.partial = S.parse_export(out)
                except Exception: res.partial = None
            else:
                res = S.parse_export(out); res.rc = 0; res.stderr = err[-2000:]
        c.res = res
        c.wall = time.time() - t0
    import concurrent.futures
    with concurrent.futures.ThreadPoolExecutor(max_workers=16) as ex:
        list(ex.map(run_one, list(enumerate(cases))))
    ctx.log("runs done; slowest: %s" % sorted(((round(c.wall, 1), c.name, c.kind, c.fmt, c.goal, c.digits) for c in cases), reverse=True)[:12])
    ctx.log("wall by kind: %s" % {k: round(sum(c.wall for c in cases if c.kind == k), 1) for k in ("solve", "state")})

    stats = collections.Counter(); samples = []; nontrivial = set(); evaluations = 0
    def replay_of(c, extra=None):
        o = {"case": c.name, "kind": c.kind, "fmt": c.fmt, "goal": c.goal, "digits": c.digits, "desc": c.desc, "run": c.run}
        if extra: o.update(extra)
        return o
    queries = []; handlers = []     # round 1
    def ask(line, fn): queries.append(line); handlers.append(fn)
    round2 = []                     # (line, fn)
    comps = []                      # component records, filled by the handlers

    for c in cases:
        r = c.res
        fname = FMTNAME[c.fmt]
        if r.kind in ("sanitizer", "crash"):
            zero_line = False
            if c.fmt == "gf" and c.goal != "c":
                # does this context print a zero-root line?  (zero roots present and the set is not "outside the unit disc")
                if c.kind == "state": zero_line = int(c.run["args"][4]) > 0 and int(c.run["args"][3]) != SET_OUTSIDE_UNIT
                else:
                    # rerun in compact format to see whether zero roots are printed
                    o2 = [x for x in c.run["opts"]]; o2[o2.index("-O") + 1] = "c"
                    r2 = (S.run_solve(vfs, c.run["inline"], o2, env=env, inline=True) if c.run.get("inline") else None)
                    if r2 is None:
                        path = os.path.join(work, "rerun.pol"); open(path, "w").write(c.run["text"]); r2 = S.run_solve(vfs, path, o2, env=env)
                    zero_line = r2.kind == "ok" and r2.meta.get("zero_roots", 0) > 0 and r2.meta.get("search_set") != SET_OUTSIDE_UNIT
            if zero_line and "mps_outroot" in r.stderr and "heap-buffer-overflow" in r.stderr:
                ctx.violation("crash:gnuplot-full:zero-root-line-reads-root[-1]",
                              "mps_outroot reads s->root[ISZERO]->drad (= s->root[-1]) when a zero root is printed in gnuplot-full format (%s)" % c.name,
                              replay_of(c, {"stderr": r.stderr[-1500:]}))
                stats["crash:gnuplot-full-zero-root"] += 1
            else:
                m = re.search(r"(SUMMARY: .*|runtime error: .*)", r.stderr)
                ctx.violation("crash:%s:%s" % (fname, (m.group(1)[:90] if m else "rc=%s" % r.rc)),
                              "printing in %s format ends in a crash / sanitizer report (%s, %s)" % (fname, c.name, c.kind), replay_of(c, {"stderr": r.stderr[-1500:]}))
                stats["crash:other"] += 1
            continue
        if r.kind != "ok":
            stats["skipped:" + str(r.kind)] += 1; continue     # solver errors / timeouts are C03's business
        evaluations += 1
        meta = r.meta; n = meta["n"]; zr = meta["zero_roots"]; outside = meta["search_set"] == SET_OUTSIDE_UNIT
        is_count = meta["goal"] == 2
        stats["ctx:%s:%s" % (fname, "count" if is_count else "roots")] += 1
        try:
            kind, toks = tokenise(c.fmt, is_count, r.output)
        except Layout as ex:
            ctx.violation("layout:%s:unreadable" % fname, "the %s output does not follow the layout of mps_outroot/mps_output: %s (%s)" % (fname, ex, c.name), replay_of(c, {"output": r.output[:2000]}))
            continue
        incls = [o.inclusion for o in r.roots]
        if is_count:
            exp_in = sum(1 for x in incls if x == 1) + (0 if outside else zr)
            exp_out = sum(1 for x in incls if x == 2) + (zr if outside else 0)
            exp_un = sum(1 for x in incls if x not in (1, 2))
            if sum(toks) != n + zr or toks != [exp_in, exp_out, exp_un]:
                ctx.violation("countgoal:%s:numbers" % fname, "goal count prints %s, the exported inclusion states give %s (degree %d) for %s" % (toks, [exp_in, exp_out, exp_un], n + zr, c.name), replay_of(c))
            def h_count(ans, toks=toks, c=c):
                if [int(x) for x in ans.split()] != toks:
                    ctx.violation("correspondence:count_roots", "model count_roots gives %s, mps_outcount printed %s (%s)" % (ans, toks, c.name), replay_of(c), no_input=True)
            ask("COUNT\t%d\t%d\t%s" % (zr, 1 if outside else 0, "\t".join(str(x) for x in incls)), h_count)
            nontrivial.add((c.name, c.fmt, "count", tuple(toks)))
            continue
        # ---- which roots must have a line (the property's own count) and in which order
        expected = ([-1] * zr if not outside else []) + [i for i in r.order if incls[i] != 2]
        if len(toks) != len(expected):
            ctx.violation("count:%s:lines" % fname, "%d root lines printed, %d roots are not reported outside the search set (zero roots %d, set %d) for %s"
                          % (len(toks), len(expected), zr, meta["search_set"], c.name), replay_of(c, {"output": r.output[:2000]}))
            continue
        def h_lines(ans, expected=expected, c=c):
            if [int(x) for x in ans.split()] != expected:
                ctx.violation("correspondence:printed_lines", "model printed_lines gives %s, expected %s (%s)" % (ans, expected, c.name), replay_of(c), no_input=True)
        ask("LINES\t%d\t%d\t%d\t%s" % (zr, 1 if outside else 0, n, "\t".join([str(x) for x in r.order] + [str(x) for x in incls])), h_lines)
        if c.fmt == "v" and [t["num"] for t in toks] != list(range(len(toks))):
            ctx.violation("layout:verbose:numbering", "Root(k) numbers are not 0,1,2,... (%s)" % c.name, replay_of(c))
        D = c.digits
        for t, idx in zip(toks, expected):
            o = r.roots[idx] if idx >= 0 else None
            who = "zero" if o is None else WHO.get(o.attrs, "none")
            # expected kinds of fields, from the model
            def h_layout(ans, t=t, c=c, who=who, o=o, idx=idx):
                kinds = ans.split()
                if len(kinds) != len(t["fields"]):
                    ctx.violation("correspondence:line_fields:%s" % FMTNAME[c.fmt], "model line_fields gives %s for a %s line, %d fields printed (%s)" % (kinds, who, len(t["fields"]), c.name), replay_of(c), no_input=True)
                    return
                for pos, (kd, tok) in enumerate(zip(kinds, t["fields"])):
                    field(c, t, o, idx, kd, tok, pos)
            ask("LAYOUT\t%s\t%s" % (c.fmt, who), h_layout)

    # one printed field
    def field(c, t, o, idx, kd, tok, pos):
        nonlocal evaluations
        fname = FMTNAME[c.fmt]; r = c.res
        if kd == "U":     # the model says: undefined behaviour (zero root in gnuplot-full); whatever was printed is not judged
            stats["field:undefined"] += 1; return
        if kd == "Z":
            stats["field:literal-0"] += 1
            if tok != "0":
                if o is None:
                    ctx.violation("zero-root:%s:not-literal-0" % fname, "a zero root is printed as %r (%s)" % (tok, c.name), replay_of(c))
                else:
                    ctx.violation("correspondence:line_fields:%s:flagged-component" % fname, "a real/imaginary-flagged component is printed as %r, the model says literal 0 (%s)" % (tok, c.name), replay_of(c), no_input=True)
                return
            if o is not None:
                # real-/imaginary-flagged root: the suppressed component is printed as the literal 0 (unit 1)
                # A component suppressed because the root is flagged real / imaginary is a statement about the ROOT
                # (its component is exactly 0).  It is judged as: the stored component is within one unit (1) of the
                # printed 0, or within the radius of it (then 0 is in the inclusion interval of that component).
                x = exact(o)[1] if pos == 1 else exact(o)[0]
                evaluations += 1
                within_rad = o.drad is not None and (isinstance(o.drad, S.HugeDyadic) or abs(x) <= o.drad)
                stats["flagged-0:stored-within-radius" if within_rad else "flagged-0:stored-beyond-radius"] += 1
                def h(ans, c=c, x=x, within_rad=within_rad):
                    if ans != "T" and not within_rad:
                        ctx.violation("close:%s:flagged-component-printed-0" % FMTNAME[c.fmt], "a component flagged real/imaginary is printed as 0 but the stored value is %s, beyond one unit and beyond the radius (%s)" % (sf(x), c.name), replay_of(c))
                round2.append(("CLOSE\t0\t%s" % qs(x), h))
            return
        if kd == "R":
            evaluations += 1
            rad = o.drad
            if rad is None or isinstance(rad, S.HugeDyadic):
                stats["radius:not-finite-or-huge"] += 1; return
            def h(ans, c=c, tok=tok, rad=rad, idx=idx):
                stats["radius:" + ans] += 1
                near_ = False
                if ans != "T":
                    # classification only (the verdict above is the extracted predicate's): a deficit of the size of
                    # rdpe_get_dl's log10/pow error, a few 1e-16 * |exponent| relative, is its known inaccuracy
                    v = Fr(tok.replace("x", "e")); e10 = abs(dexp(rad)) if rad != 0 else 0
                    near_ = rad > 0 and v < rad and (rad - v) <= rad * Fr(max(100, e10), 10 ** 14)
                if ans != "T" and near_:
                    ctx.violation("radius:rdpe_out_str-log10-pow-inexact", "radius of root %d printed as %s, stored %s: smaller by more than 1e-13 relative (by %.3g), within the error of rdpe_get_dl's log10/pow at this exponent; %s format, %s"
                                  % (idx, tok, sf(rad), sf((rad - v) / rad), FMTNAME[c.fmt], c.name), replay_of(c, {"root": idx, "token": tok}))
                elif ans != "T":
                    ctx.violation("radius:%s:printed-smaller" % FMTNAME[c.fmt], "radius of root %d printed as %s, stored %s: smaller beyond print rounding (1e-13 relative) in %s" % (idx, tok, sf(rad), c.name), replay_of(c, {"root": idx, "token": tok}))
                else:
                    nontrivial.add((c.name, c.fmt, idx, "rad", tok))
            round2.append(("RADGE\t%s\t%s\t%d\t%d" % (tok, qs(rad), RADSLACK[0], RADSLACK[1]), h))
            # the rendering model: rdpe_outln_str (full) / rdpe_out_str_u (gnuplot-full) of the stored DPE, character for character
            hb, he = o.drad_tok.split(":")
            def h_txt(ans, c=c, tok=tok, idx=idx, dtok=o.drad_tok):
                f = ans.split("\t")
                want = (f[4] if c.fmt == "f" else f[5]).strip() if len(f) == 7 else ans
                stats["render:radius:" + ("agrees" if want == tok else "DIFFERS")] += 1
                if want != tok:
                    ctx.violation("correspondence:rdpe_out_str:%s" % FMTNAME[c.fmt], "radius %s of root %d printed as %r, the model renders %r (%s)" % (dtok, idx, tok, want, c.name), replay_of(c, {"root": idx}), no_input=True)
            round2.append(("DL\t%s\t%s" % (hb, he), h_txt))
            return
        # a component through mps_outfloat
        evaluations += 1
        x = exact(o)[0] if kd.startswith("RE") else exact(o)[1]
        unsigned = kd.endswith("u")
        if unsigned:
            want = "-" if x < 0 else "+"
            if t["sep"] != want or tok.startswith("-"):
                ctx.violation("sign:verbose:imaginary-part", "verbose format: imaginary part %s printed as %r after separator %r (%s)" % (sf(x), tok, t["sep"], c.name), replay_of(c, {"root": idx}))
            xs = abs(x)
        else:
            xs = x
        rad = o.drad
        comp = {"c": c, "tok": tok, "x": xs, "idx": idx, "kd": kd, "branch": "sig"}
        # digits <= requested + MARGIN
        def h_parse(ans, comp=comp):
            c = comp["c"]; fname = FMTNAME[c.fmt]
            if ans == "NONE":
                ctx.violation("layout:%s:number" % fname, "decimal_parse rejects %r (%s)" % (comp["tok"][:60], c.name), replay_of(c)); return
            _, mant, ex, nd, sig, neg = ans.split()
            comp["sig"] = int(sig); comp["mant"] = int(mant); comp["exp"] = int(ex)
            stats["digits:%s:%s" % (fname, "le-requested" if int(sig) <= c.digits else "le-requested+%d" % MARGIN if int(sig) <= c.digits + MARGIN else "MORE")] += 1
            if int(sig) > c.digits + MARGIN:
                if c.fmt == "f":
                    ctx.violation("digits:full-format-prints-all-stored-digits", "format full prints %d significant digits when %d were requested (mpf_out_str with n_digits = 0 prints the whole %d-bit value) in %s" % (int(sig), c.digits, o.prec, c.name), replay_of(c, {"root": comp["idx"]}))
                else:
                    ctx.violation("digits:%s:more-than-requested-plus-%d" % (fname, MARGIN), "%d significant digits printed, %d requested (%s, token %s)" % (int(sig), c.digits, c.name, comp["tok"][:50]), replay_of(c, {"root": comp["idx"]}))
        ask("PARSE\t%s" % tok, h_parse)
        # model plan for compact / bare / verbose
        if c.fmt in ("c", "b", "v"):
            if x == 0:
                comp["branch"] = "stored-0"
                if tok != "0.e0":
                    round2.append(("PARSE\t0", lambda ans, comp=comp: ctx.violation("correspondence:outfloat:stored-0", "a stored component 0 is printed as %r, expected 0.e0 (%s)" % (comp["tok"], comp["c"].name), replay_of(comp["c"]), no_input=True)))
            elif rad is None or isinstance(rad, S.HugeDyadic) or rad <= 0:
                comp["branch"] = "radius-0-or-huge"; stats["plan:skipped(radius 0 / not finite: (long) of an infinite double)"] += 1
            else:
                lg = log10_fr(rad / abs(x)); la = log10_fr(abs(x))
                tol = LGTOL + abs(lg) / 10 ** 12; tola = LGTOL + abs(la) / 10 ** 12
                plans = []
                comp["plans"] = plans
                for (a, b) in ((lg - tol, la - tola), (lg - tol, la + tola), (lg + tol, la - tola), (lg + tol, la + tola)):
                    ask("PLAN\t%s\t%s\t%d\t%d" % (qs(a), qs(b), o.prec, r.meta["prec_out"]), lambda ans, plans=plans: plans.append(ans))
                zfix = []; comp["zfix"] = zfix     # exponent of the repaired branch (fixes/C17_outfloat_zero_branch_exponent.patch)
                for b in (la - tola, la + tola):
                    ask("ZEXPFIX\t%s" % qs(b), lambda ans, zfix=zfix: zfix.append(int(ans)))
        elif c.fmt in ("g", "gf"):
            comp["branch"] = "gnuplot"
            if not re.match(r"^-?\d{1,2}\.\d{14}e[+-]\d{3,}$", tok):
                ctx.violation("correspondence:gnuplot:number-layout", "gnuplot number %r is not of the form %% 16.14fe%%+04ld (%s)" % (tok, c.name), replay_of(c), no_input=True)
            def h_gnu(ans, c=c, tok=tok, idx=idx, x=x):
                stats["render:gnuplot-component:" + ("agrees" if ans.strip() == tok else "DIFFERS")] += 1
                if ans.strip() != tok:
                    ctx.violation("correspondence:gnuplot_component:%s" % FMTNAME[c.fmt], "component %s of root %d printed as %r, the model (mpf_get_rdpe, rdpe_out_str_u) renders %r (%s)" % (sf(x), idx, tok, ans.strip(), c.name), replay_of(c, {"root": idx}), no_input=True)
            round2.append(("GNU\t%s" % qs(x), h_gnu))
        else:
            comp["branch"] = "full"
            if x != 0:
                plans = []; comp["plans"] = plans
                ask("GMPCAP\t%d" % o.prec, lambda ans, plans=plans: plans.append("S " + ans))
            elif tok != "0.e0":
                round2.append(("PARSE\t0", lambda ans, comp=comp: ctx.violation("correspondence:outfloat:stored-0", "a stored component 0 is printed as %r, expected 0.e0 (%s)" % (comp["tok"], comp["c"].name), replay_of(comp["c"]), no_input=True)))
        comps.append(comp)

    # ---- round 1
    ans = ctx.run_model_lines("outfmt", queries) if queries else []
    for a, fn in zip(ans, handlers): fn(a)
    # LAYOUT handlers have queued PARSE/PLAN lines: run those too (they were appended to queries/handlers)
    done = len(ans)
    while done < len(queries):
        more = ctx.run_model_lines("outfmt", queries[done:])
        hs = handlers[done:done + len(more)]
        done += len(more)
        for a, fn in zip(more, hs): fn(a)
    ctx.log("model round 1 done: %d queries, %d components" % (len(queries), len(comps)))

    # ---- round 2: closeness (the predicate) and the rounding model for every component
    for comp in comps:
        c = comp["c"]; fname = FMTNAME[c.fmt]; x = comp["x"]; tok = comp["tok"]
        if "mant" not in comp: continue
        plans = sorted(set(comp.get("plans", [])))
        if comp["branch"] == "full": pass
        elif plans and all(p.startswith("Z") for p in plans):
            comp["branch"] = "zero-branch:abs-ge-1" if abs(x) >= 1 else "zero-branch:abs-lt-1"
        elif plans and any(p.startswith("Z") for p in plans):
            comp["branch"] = "plan-boundary"
        def h_close(ans, comp=comp):
            c = comp["c"]; fname = FMTNAME[c.fmt]; br = comp["branch"]
            stats["close:%s:%s:%s" % (fname, br, ans)] += 1
            comp["close"] = ans
            if ans != "T":
                what = "printed %s, stored %s: further apart than one unit (10^%d) of the last printed digit; %s format, root %d of %s" % (
                    comp["tok"][:60], ("%.17g" % float(comp["x"])) if abs(comp["x"]) < 10 ** 300 and abs(comp["x"]) > Fr(1, 10 ** 300) else "(huge/tiny)", comp["exp"], fname, comp["idx"], c.name)
                if br.startswith("zero-branch"):
                    sig = "close:outfloat-zero-branch:%s" % br.split(":")[1]
                elif br == "gnuplot":
                    # how far off?  rdpe_get_dl goes through log10/pow: an error of a few 1e-16 * |exponent| relative is its
                    # known inaccuracy (one signature); anything coarser is a different defect
                    x = comp["x"]; v = Fr(comp["mant"]) * Fr(10) ** comp["exp"]
                    e10 = abs(dexp(x)) if x != 0 else 0
                    near_ = x != 0 and abs(v - x) <= abs(x) * Fr(max(100, e10), 10 ** 14)
                    sig = "close:gnuplot:rdpe_out_str_u-last-digits-inexact" if near_ else "close:gnuplot:far-off"
                else:
                    sig = "close:%s:%s" % (fname, br)
                ctx.violation(sig, what, replay_of(c, {"root": comp["idx"], "token": comp["tok"]}))
            else:
                nontrivial.add((c.name, c.fmt, comp["idx"], comp["kd"], comp["tok"][:40]))
                if len(samples) < 8 and (len(samples) < 4 or br != "sig"):
                    samples.append({"case": c.name, "kind": c.kind, "format": fname, "root": comp["idx"], "field": comp["kd"], "printed": comp["tok"][:50],
                                    "stored": "%.17g" % float(comp["x"]) if abs(comp["x"]) < 10 ** 300 else "huge", "branch": br, "sig_digits": comp["sig"], "requested": c.digits})
        round2.append(("CLOSE\t%s\t%s" % (tok, qs(x)), h_close))
        if comp["branch"].startswith("zero-branch") or (comp["branch"] == "plan-boundary" and tok.startswith("0.e")):
            def h_zexp(ans, comp=comp):
                c = comp["c"]
                stats["render:0.e<l>:" + ("agrees" if ans == comp["tok"] else "DIFFERS")] += 1
                if ans != comp["tok"]:
                    ctx.violation("correspondence:zero_exp_code:%s" % FMTNAME[c.fmt], "component %s printed as %r, the model (rdpe_get_dl of |x|, l++ when d >= 1) renders %r (%s root %d)" % (sf(comp["x"]), comp["tok"], ans, c.name, comp["idx"]),
                                  replay_of(c, {"root": comp["idx"]}), no_input=True)
            round2.append(("ZEXP\t%s" % qs(x), h_zexp))
        if plans and x != 0:
            e = dexp(x)
            cands = []
            for p in plans:
                if p.startswith("Z"): cands.append(("Z", int(p.split()[1])))
                else: cands.append(("S", int(p.split()[1])))
            comp["cands"] = cands; comp["model_ok"] = False; comp["pending"] = 0
            for (k, v) in cands:
                if k == "Z":
                    if tok == "0.e%d" % v: comp["model_ok"] = True
                    elif tok in ["0.e%d" % z for z in comp.get("zfix", [])]:
                        comp["model_ok"] = True; stats["plan:zero-branch:exponent-of-the-repaired-variant"] += 1
                else:
                    comp["pending"] += 1
                    def h_rs(ans, comp=comp):
                        if ans == "T": comp["model_ok"] = True
                        comp.setdefault("rs", []).append(ans)
                    round2.append(("RSIGEQ\t%s\t%d\t%d\t%s" % (tok, v, e, qs(x)), h_rs))
    ans2 = ctx.run_model_lines("outfmt", [q for q, _ in round2]) if round2 else []
    for a, (_, fn) in zip(ans2, round2): fn(a)
    ctx.log("model round 2 done: %d queries" % len(round2))
    corr_checked = 0; corr_bad = 0
    for comp in comps:
        if "cands" not in comp: continue
        corr_checked += 1
        if comp["model_ok"]:
            stats["plan:" + ("zero-branch" if comp["branch"].startswith("zero") else "round_sig") + ":agrees"] += 1; continue
        # a tie (or the truncation of t to the output precision before rounding) may legitimately go either way
        x = comp["x"]; e = dexp(x); tie = False
        for (k, v) in comp["cands"]:
            if k == "S":
                y = abs(x) * Fr(10) ** (v - e); fr = y - (y.numerator // y.denominator)
                if abs(fr - Fr(1, 2)) < Fr(1, 10 ** 12): tie = True
        if tie:
            stats["plan:tie-not-judged"] += 1; continue
        corr_bad += 1
        c = comp["c"]
        if comp.get("close") == "T":
            ctx.violation("correspondence:outfloat:%s" % FMTNAME[c.fmt], "printed %s for stored %.17g: not what the model (plan %s) renders, yet within one unit (%s root %d)"
                          % (comp["tok"][:60], float(x) if abs(x) < 10 ** 300 else 0.0, comp["cands"], c.name, comp["idx"]), replay_of(c, {"root": comp["idx"]}), no_input=True)
    hist_branch = collections.Counter(comp["branch"] for comp in comps)
    # ---- the DPE printing path on its own
    dpe_cov = rad_tie(ctx, radh, env, stats) if not ctx.replay else {}
    ctx.log("DPE path: %s" % {k: v for k, v in dpe_cov.items() if k != "input_classes"})
    evaluations += dpe_cov.get("dpe_cases", 0) + dpe_cov.get("mpf_cases", 0)
    cov = {"evaluations": evaluations, "distinct_nontrivial": len(nontrivial),
           "rule": "one evaluation = one printed context or one printed numeric field judged by the extracted predicate; distinct+non-trivial = distinct (case, format, root, field, printed string) whose predicate was evaluated to true by the extracted model (count-goal contexts by their three numbers)",
           "printed_contexts": len(cases), "contexts_by_kind": dict(collections.Counter(c.kind for c in cases)),
           "contexts_by_format_goal_digits": dict(collections.Counter("%s/%s/%d" % (c.fmt, c.goal, c.digits) for c in cases if c.kind == "solve")),
           "components": len(comps), "components_by_branch": dict(hist_branch), "model_queries": len(queries) + len(round2),
           "rendering_model_checked": corr_checked, "rendering_model_disagreements": corr_bad, "dpe_path": dpe_cov,
           "margin_digits": MARGIN, "histogram": dict(stats), "samples": samples,
           "input_class_histogram": dict(collections.Counter(c.desc for c in cases)),
           "trusted_base": ["Coq 8.16.1 kernel; axioms as printed by Print Assumptions (OutProps uses only Q/Z: none expected)",
                            "extraction: ExtrOcamlBasic, ExtrOcamlNativeString; ocaml/outfmt_driver.ml (zarith only for decimal <-> bits and one cross-multiplied equality)",
                            "harness/vf_solve.c and harness/c17_out.c exact export + lib/solve.py parser; the Python tokeniser of the six layouts (checks/C17.py)",
                            "modelled, not verified: libm (log10 / pow (10, .) are the two function parameters of the DPE model, instantiated by ocaml/outfmt_driver.ml with this machine's libm and measured per run against a 60-digit reference; the logarithm of the digit count of compact/bare/verbose still enters as a bracketed rational), binary64 as round-to-nearest-even with unbounded exponent (rn53), GMP's mpf_out_str (round_sig is its stated specification, compared with the code on every component) and mpf_get_d (truncation), printf's %f / %li as correctly rounded decimal conversion", "harness/c17_rad.c (real rdpe_get_dl / rdpe_out_str / rdpe_out_str_u / mpf_get_rdpe, texts through a memory stream); predicates of the DPE path on Python integers, 60-digit decimal logarithms when |esp| > %d" % EXACT_ESP,
                            "states of harness/c17_out.c are written into the context by hand (values, radii, flags, order): they exercise mps_output, not the solver"]}
    return ctx.finish("proof", cov, ["solver errors/timeouts are left to C03", "the CLI's stdout is mps_output on stdout: the memory stream of the harness is the same call",
                                     "a radius of 0 or a non-finite radius makes mps_outfloat convert an infinite double to long: those components are judged by the predicate only"])
