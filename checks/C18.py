"""C18 -- errors are reported faithfully; asynchronous solves complete exactly once.

proof   : coq/Props/Properties_C18.v (mps_error over an abstract vsnprintf with explicit va_list cursor,
          early return of mps_mpsolve, mps_caller on a one-task pool)
tie     : (i) mps_error call sites driven through the API (harness/c18_error.c) with argument texts of
          many lengths; message compared with the intended text and with the extracted model (bin/ctx error);
          (i') harness/c18_sites.c: further call sites, one process per case.  The intended text of a message whose wording is
          the source's business (missing degree; end-of-input messages that carry a number) is read off the snapshot source
          (source_sites), falling back to the wordings known here; every literal format of an mps_error /
          mps_raise_parsing_error call is scanned for conversions without arguments;
          (ii) results snapshot before/after a solve with the flag set (harness/c15_reuse.c);
          (iii) mps_mpsolve_async with a callback counter and abort injection under real threads
          (harness/c18_async.c).
          (iv) harness/c18_sched.c: the real mps_mpsolve_async + mps_context_abort under the deterministic scheduler shim
          (ASan+UBSan build in which every access to exit_required is a hook, harness/c18_hooks.h), the abort placed at
          EVERY scheduling point of short solves (full sweeps on the smallest cases, strided ones otherwise, default and
          random schedules, both algorithms, 1-3 threads); every secular run is replayed, program point by program
          point, through the extracted transition system of coq/Ctx/AbortModel.v (bin/abort).
verdict : on the real library's output only (message == intended text, results unchanged, callback count, shim verdict,
          error flag or oracle-certified inclusions, Newton steps / packets / regenerations after the abort request);
          a run the model cannot reproduce is a broken correspondence; wall-clock "promptly" is partial.
"""
import json, re, os, collections, concurrent.futures as cf
from fractions import Fraction as Fr
import vf
import solve as S, polygen as G, e2e

PREFIX = {"file": "Error while opening file: ", "opt": "Unrecognized option: "}


def san_env(ctx):
    env = ctx.san_env()
    return env


def arg_for(site, total, flavour):
    k = total - len(PREFIX[site])
    if k < 1: return None
    if site == "file":
        if k < 2: return None
        body = ("%s%d%n" * k)[:k - 2] if flavour == "percent" else ("a" * (k - 2))
        return "/q" + body
    if k > 220: return None           # longer lines are rejected earlier with "Maximum line length exceeded"
    return ("zq" * k)[:k]


def model_msgs(ctx, site, arg):
    line = "L%s\tA\t|\t%s\t|\tJUNK\n" % (PREFIX[site], arg)
    out = {}
    for v in ("old", "fixed"):
        o = ctx.run_model("ctx", line, args=["error", v]).splitlines()[0]
        m = re.match(r"flag=(\d) msg=(.*)\tintended=(.*)$", o)
        out[v] = (int(m.group(1)), m.group(2), m.group(3))
    return out


def error_cases(ctx, h, totals, info):
    for site in ("file", "opt"):
        for total in totals:
            for flavour in (("plain", "percent") if site == "file" and total in (40, 64, 200) else ("plain",)):
                arg = arg_for(site, total, flavour)
                if arg is None: continue
                intended = PREFIX[site] + arg
                rc, out, err = vf.sh([h], input="%s %s\n" % (site, arg), timeout=60, env=san_env(ctx))
                info["error_cases"] += 1
                info["error_lengths"][str(min(total // 32 * 32, 320))] = info["error_lengths"].get(str(min(total // 32 * 32, 320)), 0) + 1
                mm = model_msgs(ctx, site, arg)
                replay = {"kind": "error", "site": site, "arg": arg}
                assert mm["fixed"][1] == intended == mm["fixed"][2]
                if rc != 0:
                    if total > 32:
                        ctx.violation("error-message:va_list-reuse:%s" % site,
                                      "mps_error re-reads a consumed va_list when the message (%d chars) does not fit 32 bytes: crash in vsnprintf (rc=%d)" % (total, rc), replay)
                    else:
                        ctx.violation("error-message:crash:%s:len%d" % (site, total), "crash while reporting an error (rc=%d): %s" % (rc, err[-200:]), replay)
                    continue
                m = re.search(r"flag=(\d) len=(\d+) msg=(\S+)", out)
                if not m:
                    ctx.violation("error-message:no-output:%s" % site, "harness produced no result line", replay); continue
                flag = int(m.group(1))
                msg = "" if m.group(3) == "NULL" else bytes.fromhex(m.group(3)).decode("latin1")
                if flag != 1:
                    ctx.violation("error-flag-not-set:%s" % site, "operation failed but mps_context_has_errors is false", replay)
                if msg == intended:
                    info["error_faithful"] += 1
                    if mm["old"][1] != msg: info["model_old_differs"] += 1
                    continue
                # predicate violated on the real code; classify with the model of the code as it is
                if total == 32 and msg == intended[:31]:
                    sig = "error-message:truncated-at-32:%s" % site
                    if mm["old"][1] != msg:
                        ctx.violation("correspondence:mps_error:len32", "model of the old code predicts %r, real %r" % (mm["old"][1], msg), replay)
                elif total > 32 and intended.startswith(msg) and len(msg) >= total - 2:
                    sig = "error-message:truncated:%s:len%d" % (site, total)
                elif total > 32:
                    sig = "error-message:va_list-reuse:%s" % site
                else:
                    sig = "error-message:wrong:%s:len%d" % (site, total)
                ctx.violation(sig, "retrievable message %r is not the intended text %r (length %d)" % (msg[:60], intended[:60], total), replay)


STICKY = [
    ("u", "poly m 5 -1 0 3 0 0 1"), ("s", "poly m 7 2 -1 0 0 5 0 0 1"), ("s", "poly s 4 1 1 1 2 1 3 1 4"),
    ("u", "poly m 12 1 -1 1 -1 1 -1 1 -1 1 -1 1 -1 3"),
]


def sticky_cases(ctx, h, info):
    import importlib
    for algo, poly in STICKY:
        for solve2 in ("solve", "solve_async"):
            script = ["new", "algo " + algo, "goal i", poly, "solve", "bad x^", "goal a", "prec 300", solve2, "get_roots", "free"]
            # (a solve on a context with errors does nothing: milliseconds; 45 s only bound a run whose callback never comes)
            rc, out, err = vf.sh([h], input="\n".join(script) + "\n", timeout=45, env=san_env(ctx))
            info["sticky_cases"] += 1
            replay = {"kind": "sticky", "script": script}
            if rc != 0:
                ctx.violation("sticky:crash", "solve with the error flag set ends abnormally rc=%d%s" % (rc, " (no end within 45 s: with %s the completion is never signalled)" % solve2 if rc == 124 else ""), replay); continue
            blocks, cur, st = {}, None, {}
            for l in out.splitlines():
                w = l.split()
                if l.startswith("roots "): cur = int(w[1]); blocks[cur] = []
                elif l.startswith("r ") and cur is not None: blocks[cur].append(l)
                elif l.startswith("st "): st[int(w[1])] = l; cur = None
            cb = re.search(r"end cb=(\d+)", out)
            if 5 not in blocks or 9 not in blocks or not blocks[5]:
                ctx.violation("sticky:no-results", "no results exported", replay); continue
            if " err=1 " not in st.get(6, ""):
                ctx.violation("error-flag-not-set:inline", "malformed inline polynomial did not set the error flag", replay); continue
            if blocks[5] != blocks[9]:
                ctx.violation("sticky:results-changed", "a solve with the error flag set changed the previous results (%s, %s)" % (algo, poly), replay)
            f = lambda l: re.sub(r"heap=\d+ thr=-?\d+ ?\S*", "", l.split(" ", 3)[3])
            if f(st[5]) .replace("err=0", "err=1") != f(st[9]):
                ctx.violation("sticky:state-changed", "a solve with the error flag set changed the context state: %s -> %s" % (f(st[5]), f(st[9])), replay)
            if solve2 == "solve_async" and (not cb or int(cb.group(1)) != 1):
                ctx.violation("async:callback-count:%s" % (cb.group(1) if cb else "?"), "callback of an asynchronous solve on a context with errors ran %s times" % (cb.group(1) if cb else "?"), replay)


def parse_async(out):
    d = {}
    for l in out.splitlines():
        for k, v in re.findall(r"(\w+)=(\S+)", l.split(" msg=")[0]):
            d[k] = v
        m = re.search(r" msg=(.*)$", l)
        if m and "second_msg" not in l: d["msg"] = m.group(1)
    return d


def async_cases(ctx, h, info):
    rng = ctx.rng
    deg = ctx.pick(200, 320)
    n_abort = ctx.pick(4, 24)
    budget_ms = 20000.0
    for algo in ("s", "u"):
        for goal in (("a",) if ctx.quick() else ("a", "i")):
            seed = rng.randint(1, 10 ** 6)
            base_cmd = [h, algo, goal, str(deg), str(seed)]
            rc, out, err = vf.sh(base_cmd + ["-1", "second"], timeout=200, env=san_env(ctx))
            b = parse_async(out)
            info["async_runs"] += 1
            replay = {"kind": "async", "args": base_cmd[1:] + ["-1", "second"]}
            if rc != 0 or "cb" not in b:
                ctx.violation("async:abnormal-end", "asynchronous solve ended abnormally rc=%d %s" % (rc, err[-200:]), replay); continue
            runs = [(b, replay, None)]
            t_base = float(b.get("t_cb_ms", "100"))
            delays = [int(rng.uniform(0.02, 0.8) * t_base * 1000) for _ in range(n_abort)] + [int(t_base * 3000) + 400000]
            for dly in delays:
                args = base_cmd[1:] + [str(dly), "second"]
                rc, out, err = vf.sh([h] + args, timeout=200, env=san_env(ctx))
                info["async_runs"] += 1; info["abort_runs"] += 1
                r = parse_async(out)
                rp = {"kind": "async", "args": args}
                if rc != 0 or "cb" not in r:
                    ctx.violation("async:abnormal-end", "asynchronous solve with abort ended abnormally rc=%d %s" % (rc, err[-200:]), rp); continue
                runs.append((r, rp, dly))
            for r, rp, dly in runs:
                if r.get("timeout") == "1":
                    ctx.violation("async:no-callback", "callback not invoked within 120 s", rp); continue
                if r["cb"] != "1":
                    ctx.violation("async:callback-count:%s" % r["cb"], "callback invoked %s times for one asynchronous solve" % r["cb"], rp)
                if r["same"] != "1":
                    ctx.violation("async:results-change-after-callback", "results read in the callback differ from those read 300 ms later (solve had not ended)", rp)
                if r["finite"] != "1":
                    ctx.violation("abort:non-finite-radius", "results after abort contain a non finite radius", rp)
                if dly is None: continue
                ta = float(r["t_abort_ms"])
                if ta > budget_ms:
                    ctx.violation("abort:not-prompt:%s" % algo, "solve returned %.0f ms after mps_context_abort" % ta, rp)
                if r["err"] == "0" and ta >= 0:
                    info["abort_no_error"] += 1
                    if r["hash"] == b["hash"] and ta > 0.25 * t_base:
                        # same results as the run without abort, error flag clear: the request had no effect
                        ctx.violation("abort:ignored:%s" % algo,
                                      "abort after %.0f ms of a %.0f ms solve is ignored: solve runs to completion (%.0f ms more), same results, no error flag"
                                      % (dly / 1000.0, t_base, ta), rp)
                elif r["err"] == "1":
                    info["abort_error_flag"] += 1
                if r["err"] == "0" and r.get("second_err") == "0" and "second_radexp" in r and \
                   int(r["second_radexp"]) > int(r["fresh_radexp"]) + 100 and int(b["second_radexp"]) <= int(b["fresh_radexp"]) + 100:
                    ctx.violation("abort:exit_required-sticky:%s" % algo,
                                  "exit_required is never cleared: after an abort request the next solve on the same context stops early without error (largest radius 2^%s instead of 2^%s on a fresh context)" % (r["second_radexp"], r["fresh_radexp"]), rp)


# ---------------------------------------------------------------------------------------------------------------
# (i') more mps_error call sites through the API (harness/c18_sites.c), one process per case
def hx(s): return s.encode("latin1").hex()

SIG_DROPS = "error-message:parsing-error-drops-message"
SIG_DEGREE = "error-message:missing-argument:parser.c:Degree=%d"
SIG_NULLTOK = "error-message:missing-argument:parser.c:raise-null-token"
MSG_COEF = "Error parsing coefficients of the polynomial"


DEGREE_WORDINGS = ["Degree of the polynomial must be provided via the Degree=%d configuration option.",      # literal of a `Degree=%%d` format
                   "Degree of the polynomial must be provided via the Degree=<n> configuration option."]     # wording since fb161c73
DEGREE_ANCHOR = "Degree of the polynomial must be provided"
NULLTOK_ANCHOR = "Error while reading"

# --- reading intended texts off the snapshot source -----------------------------------------------------------
_C_TOKEN = re.compile(r'/\*.*?\*/|//[^\n]*|"(?:\\.|[^"\\\n])*"|\'(?:\\.|[^\'\\\n])*\'', re.S)
_C_ESC = {"n": "\n", "t": "\t", "r": "\r", "0": "\0", "a": "\a", "b": "\b", "f": "\f", "v": "\v", "\\": "\\", '"': '"', "'": "'", "?": "?"}
_CONV = re.compile(r"%(?:(?P<pct>%)|(?P<flags>[-+ #0]*)(?P<width>\d+)?(?P<prec>\.\d+)?(?P<len>hh|h|ll|l|j|z|t|L)?(?P<conv>[diouxXeEfFgGaAcspn]))")


def c_unescape(body):
    def rep(m):
        e = m.group(1)
        if e[0] in "xX": return chr(int(e[1:], 16) & 255)
        if e[0] in "01234567": return chr(int(e, 8) & 255)
        return _C_ESC.get(e, e)
    return re.sub(r"\\(x[0-9a-fA-F]+|[0-7]{1,3}|.)", rep, body, flags=re.S)


def c_blank_comments(text):
    """The source with comments blanked (string and character literals untouched), same length and line structure."""
    def rep(m):
        t = m.group(0)
        return t if t[0] in "\"'" else re.sub(r"[^\n]", " ", t)
    return _C_TOKEN.sub(rep, text)


def c_literal_value(expr):
    """Value of an expression that consists of adjacent string literals only, else None."""
    parts = []; pos = 0
    for m in re.finditer(r'"((?:\\.|[^"\\\n])*)"', expr):
        if expr[pos:m.start()].strip(): return None
        parts.append(c_unescape(m.group(1))); pos = m.end()
    if not parts or expr[pos:].strip(): return None
    return "".join(parts)


def c_calls(text, fname):
    """[(line, [argument texts])] for every call `fname (...)` in a C source text (comments ignored, literals respected)."""
    src = c_blank_comments(text); out = []
    for m in re.finditer(r"(?<![A-Za-z0-9_])%s\s*\(" % re.escape(fname), src):
        i = m.end(); depth = 1; args = []; cur = []
        while i < len(src) and depth:
            ch = src[i]
            if ch in "\"'":
                t = _C_TOKEN.match(src, i)
                if not t: break
                cur.append(t.group(0)); i = t.end(); continue
            if ch in "([{": depth += 1
            elif ch in ")]}":
                depth -= 1
                if depth == 0: break
            if ch == "," and depth == 1: args.append("".join(cur).strip()); cur = []
            else: cur.append(ch)
            i += 1
        if depth: continue                      # unbalanced: not a call we can read
        args.append("".join(cur).strip())
        out.append((src.count("\n", 0, m.start()) + 1, args))
    return out


def conversions(fmt):
    """The conversions of a printf format that consume an argument (`%%` does not; `*` widths are not used by libmps' messages)."""
    return [m for m in _CONV.finditer(fmt) if not m.group("pct")]


def render(fmt, args):
    """printf rendering of a format with python values for the d/i/u/s/c/x conversions libmps' messages use; None if the format
    has another conversion or the number of arguments is not the number of conversions."""
    it = iter(args)
    def rep(m):
        if m.group("pct"): return "%"
        conv = m.group("conv")
        if conv not in "diuscxX": raise ValueError(conv)
        v = next(it)
        return ("%" + m.group("flags") + (m.group("width") or "") + (m.group("prec") or "") + {"i": "d", "u": "d"}.get(conv, conv)) % (v,)
    try:
        s = _CONV.sub(rep, fmt)
    except (StopIteration, ValueError, TypeError):
        return None
    return s if next(it, None) is None else None


def read_snapshot(snap, rel):
    try: return open(os.path.join(snap, rel), errors="replace").read()
    except OSError: return None


ERROR_FUNCS = {"mps_error": 1, "mps_raise_parsing_error": 3}       # function -> index of the format among its arguments


def source_sites(snap):
    """What the snapshot source says about the messages whose wording this check does not fix itself:
       degree : literal text of the missing-degree message if its format has no argument-consuming conversion, else None
       nulltok: {format literal -> [argument expressions]} of the mps_raise_parsing_error calls of chebyshev-parser.c with arguments
       scan   : every mps_error / mps_raise_parsing_error call of libmps whose format is a literal: conversions vs arguments."""
    info = {"degree": None, "degree_format": None, "nulltok": {}, "scan": {"calls": 0, "literal_formats": 0, "with_arguments": 0, "files": 0}, "mismatch": [], "literals": set()}
    root = os.path.join(snap, "src", "libmps")
    for d, _, files in sorted(os.walk(root)):
        for f in sorted(files):
            if not f.endswith((".c", ".y", ".l")): continue
            rel = os.path.relpath(os.path.join(d, f), snap); text = read_snapshot(snap, rel)
            if text is None or not any(fn in text for fn in ERROR_FUNCS): continue
            info["scan"]["files"] += 1
            # the missing-degree message is the one reported under `if (s->n == -1)` of parser.c, whatever its wording
            degree_lines = set()
            if f == "parser.c":
                blank = c_blank_comments(text)
                for m in re.finditer(r"if\s*\(\s*s\s*->\s*n\s*==\s*-\s*1\s*\)", blank):
                    l0 = blank.count("\n", 0, m.start()) + 1; degree_lines |= set(range(l0, l0 + 8))
            for fn, idx in ERROR_FUNCS.items():
                for line, args in c_calls(text, fn):
                    if len(args) <= idx or re.match(r"(const\s+)?(mps_context|char)\b", args[0]): continue     # prototype / definition
                    info["scan"]["calls"] += 1
                    fmt = c_literal_value(args[idx])
                    if fmt is None: continue
                    info["scan"]["literal_formats"] += 1
                    nconv = len(conversions(fmt)); extra = args[idx + 1:]
                    info["scan"]["with_arguments"] += bool(extra)
                    info["literals"].add(render(fmt, ()) if nconv == 0 else fmt)
                    if nconv != len(extra):
                        info["mismatch"].append({"file": rel, "line": line, "function": fn, "format": fmt, "conversions": nconv, "arguments": len(extra)})
                    if f == "parser.c" and fn == "mps_error" and (fmt.startswith(DEGREE_ANCHOR) or line in degree_lines):
                        info["degree_format"] = fmt
                        if nconv == 0 and not extra: info["degree"] = render(fmt, ())
                    if f == "chebyshev-parser.c" and fn == "mps_raise_parsing_error" and extra:
                        info["nulltok"][fmt] = extra
    return info


def nulltok_intended(src, default_fmt, values):
    """Intended text of an end-of-input message of the sparse Chebyshev reader: the format as the source has it (the one that starts
    like `default_fmt` up to its conversion), rendered with the values of the caller's argument expressions."""
    stem = default_fmt.split("%")[0].rstrip()
    def usable(fmt, exprs): return all(e in values for e in exprs) and render(fmt, [values[e] for e in exprs]) is not None
    cands = [(f, x) for f, x in sorted(src["nulltok"].items()) if f.split("%")[0].rstrip() == stem and usable(f, x)]
    if not cands:       # reworded in the source: the call of the same part (real / imaginary) that passes the same variable
        cands = [(f, x) for f, x in sorted(src["nulltok"].items()) if ("imaginary" in f) == ("imaginary" in default_fmt) and x == [values["default_expr"]] and usable(f, x)]
    if len(cands) == 1:
        fmt, exprs = cands[0]
        return fmt, render(fmt, [values[e] for e in exprs])
    return default_fmt, render(default_fmt, [values[values["default_expr"]]])


def site_cases_list(ctx, src=None):
    """[{site, argv, pieces, args, contains?, sig?}]: pieces/args describe the caller's format and arguments (the intended text is
    their rendering); `contains` = text the caller passed to mps_raise_parsing_error, which must be retrievable too.
    `src` = source_sites(snapshot): where the wording is the source's business (missing degree, messages with a number) the
    intended text is read off the snapshot; without it the wordings known to this file are used."""
    rng = ctx.rng; out = []
    src = src or {"degree": None, "nulltok": {}}
    def lit(s): return [("L", s)]
    def case(site, argv, pieces, args=(), **kw):
        d = {"site": site, "argv": argv, "pieces": pieces, "args": [str(a) for a in args]}; d.update(kw); out.append(d)
    def word(n, alphabet="abcdefghijklmnopqrstuvwxyzQZ"): return "".join(rng.choice(alphabet) for _ in range(n))
    head = "Monomial;\nDegree=%d;\n%s;\n%s;\n\n"
    # option lines
    for n in [3, 8, rng.randint(9, 40), rng.randint(41, 120), rng.randint(121, 200)]:
        w = word(n)
        case("parser.c:unrecognized-option=", ["str", hx("Monomial;\n%s=3;\nDegree=1;\n\n1 1\n" % w)], [("L", "Unrecognized option: "), ("A",)], [w])
        w = word(n)
        case("parser.c:unrecognized-option", ["str", hx("Monomial;\n%s;\nDegree=1;\n\n1 1\n" % w)], [("L", "Unrecognized option: "), ("A",)], [w])
    case("parser.c:line-too-long", ["str", hx("Monomial;\n%s;\nDegree=1;\n\n1 1\n" % word(rng.randint(256, 400)))],
         lit("Maximum line length exceeded (length > 255 while parsing)"))
    for v in (0, -rng.randint(1, 10 ** 6)):
        case("parser.c:degree-not-positive", ["str", hx("Monomial;\nDegree=%d;\nInteger;\n\n1 1\n" % v)], lit("Degree must be a positive integer"))
    case("parser.c:precision-not-positive", ["str", hx("Monomial;\nDegree=1;\nPrecision=%d;\nFloatingPoint;\n\n1 1\n" % -rng.randint(0, 999))],
         lit("Precision must be a positive integer"))
    # the message names the option's syntax: its wording is the source's (read off the snapshot when its format needs no argument),
    # otherwise exactly one of the two wordings the message has had; a number in place of the syntax is the violation
    for kind in ("Integer", "Rational", "FloatingPoint"):
        case("parser.c:degree-missing", ["str", hx("Monomial;\n%s;\nReal;\n\n1 1\n" % kind)],
             lit(src["degree"] or DEGREE_WORDINGS[-1]), sig=SIG_DEGREE, accept=[src["degree"]] if src["degree"] else list(DEGREE_WORDINGS),
             derived=bool(src["degree"]))
    # coefficients: end of input (token == NULL: the caller's message alone) and malformed token (message + position)
    for kind, cplx, good, bad in (("Integer", "Real", "12", "1x2"), ("Integer", "Complex", "7", "7%d"), ("Rational", "Real", "1/3", "q/2"),
                                  ("Rational", "Complex", "2/5", "1/z%s"), ("FloatingPoint", "Real", "1.5", "1.5.5e"), ("FloatingPoint", "Complex", "2.5e3", "%n%n")):
        d = rng.randint(2, 6); per = 2 if cplx == "Complex" else 1
        have = rng.randint(0, (d + 1) * per - 1)
        msg_eof = MSG_COEF
        case("monomial-parser.c:coefficients-eof:%s-%s" % (kind, cplx), ["str", hx(head % (d, kind, cplx) + " ".join([good] * have) + "\n")], lit(msg_eof))
        tok = bad + word(rng.choice([0, 0, 30, 150]))
        nl = rng.randint(0, 3)
        text = head % (d, kind, cplx) + "\n" * nl + " ".join([good] * have + [tok]) + "\n"
        line = 6 + nl
        want = {"Integer": MSG_COEF, "FloatingPoint": MSG_COEF}.get(kind)
        if kind == "Rational": want = "Error parsing the %s of a coefficient" % ("denominator" if "/z" in tok else "numerator")
        case("monomial-parser.c:coefficients-token:%s-%s" % (kind, cplx), ["str", hx(text)],
             [("L", "Parsing error on line "), ("A",), ("L", " near the token: " + tok)], [line], contains=want, sig=SIG_DROPS)
    # Chebyshev: every end-of-input exit of the reader (token == NULL: the caller's message, rendered with the caller's arguments, and nothing else)
    cheb = "Chebyshev;\nDegree=%d;\n%s;\n%s;\n%s\n%s"
    for kind, cplx, good, m_re, m_im in (("Rational", "Real", "1/2", "Error while reading the real part of coefficient", None),
                                         ("Rational", "Complex", "2/3", "Error while reading the real part of coefficient", "Error while reading the imaginary part of coefficient"),
                                         ("Integer", "Complex", "5", "Error while reading the real part of coefficient", "Error while reading the imaginary part of coefficient"),
                                         ("FloatingPoint", "Real", "1.5", "Error while reading real part of coefficient", None),
                                         ("FloatingPoint", "Complex", "2.5e1", "Error while reading real part of coefficient", "Error while reading imaginary part of coefficient")):
        d = rng.randint(2, 7); per = 2 if cplx == "Complex" else 1
        for part, msg in (("re", m_re), ("im", m_im)):
            if msg is None: continue
            have = rng.randrange(0, d + 1) * per + (1 if part == "im" else 0)
            case("chebyshev-parser.c:dense-eof:%s-%s-%s" % (kind, cplx, part), ["str", hx(cheb % (d, kind, cplx, "", " ".join([good] * have) + "\n"))], lit(msg))
    # sparse: three of the callers pass a number with the message.  The argument is the caller's variable: `i` (n + 1 after the zeroing
    # loop, not the degree just read) in the exact branch, `degree` (the degree just read) in the floating point one
    for kind, cplx, good, part, fmt, dflt in (("Rational", "Real", "1/%d", "re", "Error while reading the real part of coefficient %d", "i"),
                                              ("Rational", "Real", "1/%d", "re", "Error while reading the real part of coefficient %d", "i"),
                                              ("Integer", "Real", "%d", "re", "Error while reading the real part of coefficient %d", "i"),
                                              ("Rational", "Complex", "3/%d", "im", "Error while reading the imaginary part of coefficient %d", "i"),
                                              ("FloatingPoint", "Complex", "%d.25", "im", "Error while reading imaginary part of coefficient %d", "degree"),
                                              ("FloatingPoint", "Complex", "%de-2", "im", "Error while reading imaginary part of coefficient %d", "degree")):
        d = rng.randint(2, 9); i = rng.randint(1, d); per = 2 if cplx == "Complex" else 1
        body = "".join("%d %s\n" % (j, " ".join([good % (j + 2)] * per)) for j in range(i)) + "%d%s\n" % (i, (" " + good % (i + 2)) if part == "im" else "")
        values = {"i": d + 1, "degree": i, "default_expr": dflt}
        sfmt, intended = nulltok_intended(src, fmt, values)
        k = sfmt.index("%"); tail = _CONV.match(sfmt, k).end()
        n = intended[k:len(intended) - (len(sfmt) - tail)]
        case("chebyshev-parser.c:sparse-eof:%s-%s-%s" % (kind, cplx, part), ["str", hx(cheb % (d, kind, cplx, "Sparse;\n", body))],
             [("L", sfmt[:k]), ("A",)] + ([("L", sfmt[tail:])] if sfmt[tail:] else []), [n], sig=SIG_NULLTOK, derived=sfmt in src["nulltok"])
    for kind, good in (("FloatingPoint", "1.5"),):
        d = rng.randint(2, 6); i = rng.randint(0, d)
        case("chebyshev-parser.c:sparse-eof:%s-Real-re" % kind, ["str", hx(cheb % (d, kind, "Real", "Sparse;\n", "".join("%d %s\n" % (j, good) for j in range(i)) + "%d\n" % i))],
             lit("Error while reading real part of coefficient"))
    case("chebyshev-parser.c:sparse-degree-token", ["str", hx("Chebyshev;\nDegree=3;\nRational;\nReal;\nSparse;\n\n0 1/2\nzz 1/3\n")],
         [("L", "Parsing error on line "), ("A",), ("L", " near the token: zz")], [8], contains="Cannot parse the degree of the coefficient.", sig=SIG_DROPS)
    # legacy (2.x) files
    case("monomial-parser.c:legacy-data-type", ["str", hx("xri\n0\n2\n1\n2\n3\n")], lit("Found unsupported data_type in input file"))
    case("monomial-parser.c:legacy-data-structure", ["str", hx("dxi\n0\n2\n1\n2\n3\n")], lit("Found unsupported data_structure in input file"))
    case("monomial-parser.c:legacy-precision", ["str", hx("drf\nzz\n2\n1\n2\n3\n")], lit("Error while reading the input precision of the coefficients"))
    case("monomial-parser.c:legacy-degree", ["str", hx("dri\n0\nzz\n1\n2\n3\n")], lit("Error reading the degree of the polynomial"))
    case("tokenizer.l:yyerror", ["inline", hx("x^^2 + + 1")], lit("syntax error"))
    # API calls
    case("context.c:negative-degree", ["negdeg"], lit("Polynomial degree should be positive"))
    case("monomial-poly.c:get-q-on-fp", ["getq"], lit("Cannot extract rational coefficients from a floating point polynomial"))
    case("monomial-matrix-poly.c:d-on-rational", ["mpoly", "1"], lit("Cannot assign floating point coefficients to a non-floating-point polynomial."))
    case("monomial-matrix-poly.c:q-out-of-bounds", ["mpoly", "2"], lit("Degree of the coefficient is out of bounds"))
    case("monomial-matrix-poly.c:q-on-fp", ["mpoly", "3"], lit("Cannot assign exact coefficients to a floating point polynomial."))
    case("input-output.c:nothing-to-copy", ["copyroots"], lit("Nothing to copy"))
    # solver errors
    quad = "Monomial;\nDegree=2;\n%s;\nReal;\n\n%s\n"
    case("unisolve/main.c:resume", ["solve", hx(quad % ("Integer", "1 2 3")), "u", "-1", "1", "0"], lit("Resume not supported yet"))
    case("unisolve/main.c:no-newton", ["solve", hx("Chebyshev;\nDegree=2;\nRational;\nReal;\n\n1/2 1/3 1/5\n"), "u", "-1", "0", "0"],
         lit("The standard MPSolve algorithm is not available for this type of polynomial, please select the secular algorithm"))
    case("unisolve/main.c:props-rational", ["solve", hx(quad % ("Rational", "1/2 1/3 1/5")), "u", "-1", "0", "1"],
         lit("The real/imaginary option has not been yet implemented for rational input"))
    case("unisolve/main.c:props-fp", ["solve", hx(quad % ("FloatingPoint", "1.5 2.5 3.5")), "u", "-1", "0", "1"],
         lit("The input polynomial has neither integer nor rational coefficients: unable to perform real/imaginary options"))
    case("secular-ga.c:max-packets", ["solve", hx("Secular;\nDegree=3;\nRational;\nReal;\n\n1/2 1/3\n2/3 5/2\n-1/4 7/2\n"), "s", "0", "0", "0"],
         lit("Maximum number of iteration passed. Aborting."))
    for _ in range(2):
        d = rng.randint(2, 6); i = rng.randint(0, d - 1)
        roots = "".join("(%de-1, 25e-2)\n" % (j + 1) for j in range(i)) + "zz\n"      # (GMP's mpf_inp_str reads up to the blank: 'Ne-1,' parses, 'N.5,' does not)
        coeffs = " ".join(str(rng.randint(1, 9)) for _ in range(d + 1))
        case("file-starting.c:bad-approximation", ["filestart", hx("Monomial;\nDegree=%d;\nInteger;\nReal;\n\n%s\n" % (d, coeffs)), hx(roots)],
             [("L", "Error while trying to read the "), ("A",), ("L", "-th approximation. Aborting")], [i])
    return out


def judge_site_message(msg, intended, accept=None, contains=None):
    """The predicate of a driven call site on the retrievable text: '' if it holds, else what is wrong."""
    if msg is None: return "no message is retrievable"
    if contains is not None:
        return "" if contains in msg else "retrievable %r does not contain %r" % (msg[:90], contains)
    if msg == intended or msg in (accept or ()): return ""
    why = "retrievable message %r is not the intended text %r" % (msg[:100], intended[:100])
    if accept and len(accept) > 1: why += " (nor %s)" % ", ".join(repr(a[:100]) for a in accept if a != intended)
    if conversions(msg) and not conversions(intended): why += ": a conversion of the caller's format is shown unsubstituted"
    return why


def site_phase(ctx, h, info):
    snap = ctx.snap("san")
    src = source_sites(snap)
    cases = site_cases_list(ctx, src)
    st = info["sites"]
    st["source_scan"] = dict(src["scan"], mismatches=len(src["mismatch"]), degree_message_from_source=src["degree"],
                             messages_with_number_from_source=sorted(src["nulltok"]))
    # static part of the argument clause: a literal format of an error call with more (or fewer) conversions than arguments
    for mm_ in src["mismatch"]:
        slug = re.sub(r"[^A-Za-z0-9=%<>]+", "-", mm_["format"])[:40].strip("-")
        ctx.violation("error-message:format-arguments:%s:%s" % (os.path.basename(mm_["file"]), slug),
                      "%s (%s:%d) is called with the format %r (%d conversions) and %d arguments for it: what the message shows in their place is indeterminate"
                      % (mm_["function"], mm_["file"], mm_["line"], mm_["format"][:100], mm_["conversions"], mm_["arguments"]), dict(mm_, kind="site-static"), no_input=True)
    if src["scan"]["literal_formats"] < 20:
        raise vf.InfraError("C18: only %d literal formats of mps_error calls found under %s/src/libmps: the source scan no longer reads the code" % (src["scan"]["literal_formats"], snap))
    def run1(c):
        rc, out, err = vf.sh([h] + c["argv"], timeout=120, env=san_env(ctx))
        return rc, out, err
    with cf.ThreadPoolExecutor(max_workers=4) as ex:
        results = list(ex.map(run1, cases))
    # the extracted model of the repaired mps_error on the caller's format and arguments
    lines = []
    for c in cases:
        lines.append("\t".join([("L" + p[1]) if p[0] == "L" else "A" for p in c["pieces"]] + ["|"] + c["args"] + ["|", "JUNK"]))
    mo = ctx.run_model("ctx", "\n".join(lines) + "\n", args=["error", "fixed"]).split("\n")
    if len(mo) < len(cases): raise vf.InfraError("bin/ctx error returned %d lines for %d call-site cases" % (len(mo), len(cases)))
    for c, (rc, out, err), ml in zip(cases, results, mo):
        it = iter(c["args"]); intended = "".join(p[1] if p[0] == "L" else next(it) for p in c["pieces"])
        mm = re.match(r"flag=(\d) msg=(.*)\tintended=(.*)$", ml)
        replay = {"kind": "site", "site": c["site"], "argv": c["argv"], "intended": intended, "contains": c.get("contains")}
        if c.get("accept"): replay["accept"] = c["accept"]
        st["cases"] += 1; st["by_site"][c["site"].split(":")[0]] += 1; st["distinct_sites"].add(c["site"])
        if not mm or mm.group(2) != intended or mm.group(3) != intended:
            ctx.violation("correspondence:mps_error-model:%s" % c["site"], "extracted model renders %r, python %r" % (ml[:120], intended[:120]), replay, no_input=True)
        m = re.search(r"flag=(\d) len=(\d+) msg=(\S+)", out or "")
        if rc != 0 or not m:
            ctx.violation("error-message:crash:%s" % c["site"], "driving the call site ends abnormally rc=%d: %s" % (rc, (err or "")[-300:]), replay); continue
        msg = "" if m.group(3) == "NULL" else bytes.fromhex(m.group(3)).decode("latin1")
        if m.group(1) != "1":
            ctx.violation("error-flag-not-set:%s" % c["site"], "operation failed but mps_context_has_errors is false", replay); continue
        if "contains" in c:
            # mps_raise_parsing_error with a token: position text as built by the code AND the caller's message
            if msg != intended and c["contains"] not in msg:
                ctx.violation("correspondence:mps_raise_parsing_error:%s" % c["site"], "retrievable text %r, expected position text %r" % (msg[:100], intended[:100]), replay, no_input=True)
            if c["contains"] in msg: st["faithful"] += 1
            else:
                st["unfaithful"] += 1
                ctx.violation(c["sig"], "mps_raise_parsing_error (parser.c) drops the message of its caller: retrievable %r does not contain %r (site %s)"
                              % (msg[:90], c["contains"], c["site"]), replay)
            continue
        why = judge_site_message(msg, intended, c.get("accept"))
        st["intended_from_source"] += bool(c.get("derived"))
        if not why: st["faithful"] += 1; continue
        if not c["args"] and "accept" not in c and intended not in src["literals"] and msg in src["literals"] and not conversions(msg):
            # the source no longer has the wording this file expects and the retrievable text is, verbatim, a message of the source:
            # reported faithfully under a new wording
            st["faithful"] += 1; st["reworded"] += 1; ctx.notes.append("site %s: message reworded in the source: %r" % (c["site"], msg[:100])); continue
        st["unfaithful"] += 1
        ctx.violation(c.get("sig") or "error-message:wrong:%s" % c["site"], "%s (site %s)" % (why, c["site"]), replay)


# ---------------------------------------------------------------------------------------------------------------
# (iv) abort at every scheduling point under the deterministic scheduler
WRAP = "-Wl," + ",".join("--wrap=" + f for f in (
    "vf_mutex_lock vf_mutex_unlock vf_mutex_trylock vf_cond_wait vf_cond_signal vf_cond_broadcast vf_create vf_join vf_yield "
    "mps_secular_ga_mpsolve mps_standard_mpsolve mps_secular_ga_fiterate mps_secular_ga_diterate mps_secular_ga_miterate "
    "mps_faberth_packet mps_daberth_packet mps_maberth_packet mps_secular_ga_regenerate_coefficients mps_copy_roots mps_improve "
    "mps_secular_fnewton mps_secular_dnewton mps_secular_mnewton mps_polynomial_fnewton mps_polynomial_dnewton mps_polynomial_mnewton "
    "mps_thread_job_queue_next mps_thread_pool_assign").split())
HOOK_CFLAGS = "-include %s/harness/c18_hooks.h -DVF_C18_TRACE=1" % vf.VERIF
GA_LABELS = [78, 409, 465, 515, 535, 549, 595, 623]      # the reads of exit_required in secular-ga.c, in source order (model labels)
STATUS_NAME = {1: "deadlock", 2: "steplimit", 3: "misuse", 4: "assert", 5: "crash", 6: "timeout"}
EXIT_MSG = "Exit forced by the caller"


def poll_sites(snap):
    """(file id, line) -> model label for every READ of exit_required in the three files; None for the writes.
    Raises if the number of read sites is not the one the model has (then the model no longer follows the code)."""
    out = {}; problems = []
    for fid, rel, labels in ((1, "src/libmps/secsolve/secular-ga.c", GA_LABELS), (2, "src/libmps/secsolve/secular-iteration.c", [29, 29, 29]),
                             (3, "src/libmps/secsolve/secular-regeneration.c", [165])):
        reads = []
        for ln, line in enumerate(open(os.path.join(snap, rel), errors="replace").read().split("\n"), 1):
            code = re.sub(r"/\*.*?\*/", "", line)
            if "exit_required" not in code: continue
            if re.search(r"exit_required\s*=[^=]", code): out[(fid, ln)] = None
            else: reads.append(ln)
        if len(reads) != len(labels):
            problems.append("%s has %d reads of exit_required (lines %s), the model has %d" % (rel, len(reads), reads, len(labels)))
        for ln, lab in zip(reads, labels): out[(fid, ln)] = lab
    return out, problems


def sched_cases_list(ctx):
    rng = ctx.rng
    sec3 = G.secular_case("sec3", rng, 3, False); sec4 = G.secular_case("sec4", rng, 4, False)
    z1 = G.rand_dyadic_root(rng, 2, 1, False); z2 = G.rand_dyadic_root(rng, 3, 2, True)
    others = [z for z in {G.rand_dyadic_root(rng, 4, 2, True) for _ in range(3)} if z not in (z1, z2)][:2]
    mult = G.from_roots_case("mult4", "multiple-roots", [z1, z1, z2] + others[:1], rng)
    r5 = G.mono_case("randint5", "random-integer", G.rand_int_poly(rng, 5, 6), rng)
    r3 = G.mono_case("randint3", "random-integer", G.rand_int_poly(rng, 3, 4), rng)
    q, th = ctx.quick(), not ctx.quick()
    # (case, opts, threads, stride (0 = every point), random schedules)
    J = [(sec3, ["-a", "s", "-G", "i"], 1, 0, 0), (r3, ["-a", "s", "-G", "i"], 1, 0, 0), (r3, ["-a", "u", "-G", "i"], 1, 0, 0),
         (sec3, ["-a", "s", "-G", "a", "-o", "30"], 1, 0 if th else 3, 0),
         (sec3, ["-a", "s", "-G", "i"], 2, 0 if th else 3, ctx.pick(30, 150)),
         (sec4, ["-a", "s", "-G", "i"], 3, 7 if q else 2, ctx.pick(30, 150)),
         (sec4, ["-a", "s", "-G", "a", "-o", "40"], 2, 11 if q else 3, ctx.pick(20, 100)),
         (mult, ["-a", "s", "-G", "i"], 1, 13 if q else 3, 0),
         (mult, ["-a", "s", "-G", "i"], 2, 29 if q else 5, ctx.pick(30, 150)),
         (mult, ["-a", "s", "-G", "a", "-o", "30"], 3, 61 if q else 7, ctx.pick(20, 100)),
         (r5, ["-a", "s", "-G", "a", "-o", "30"], 2, 17 if q else 3, 0),
         (r5, ["-a", "u", "-G", "i"], 2, 13 if q else 3, ctx.pick(20, 100)),
         (r5, ["-a", "u", "-G", "a", "-o", "30"], 3, 29 if q else 5, 0)]
    return [{"case": c, "opts": o, "threads": k, "stride": st, "nrandom": nr} for c, o, k, st, nr in J]


def parse_sched_output(text):
    runs = []; exp = []; cur = None; in_res = False
    for ln in text.split("\n"):
        if ln.startswith("# result-end"): in_res = False; continue
        if ln.startswith("# result "): in_res = True; exp = []; continue
        if ln.startswith("# run "):
            in_res = False
            t = ln.split(); kv = {}
            i = 3
            while i + 1 < len(t): kv[t[i]] = t[i + 1]; i += 2
            cur = {"hdr": ln, "kv": kv, "export": "\n".join(exp), "ev": [], "tail": ""}; exp = []
            continue
        if ln.startswith("# end"):
            if cur is not None: runs.append(cur); cur = None
            continue
        if in_res: exp.append(ln)
        elif cur is not None:
            if ln.startswith("#"): cur["tail"] = ln
            else:
                w = ln.split()
                if len(w) == 3: cur["ev"].append((int(w[0]), w[1], int(w[2])))
    return runs


def run_sched(h, polfile, opts, k, aborts, env, mode=None, seed=0, timeout=900, run_seed=None):
    cmd = [h, polfile] + opts + ["-j", str(k), "--timeout", "60"]
    if isinstance(aborts, str): cmd += ["--abort-range", aborts]
    else: cmd += ["--abort-at", ",".join(str(a) for a in aborts)]
    if mode == "random": cmd += ["--random"] + (["--run-seed", str(run_seed)] if run_seed is not None else ["--seed", str(seed)])
    rc, out, err = vf.sh(cmd, timeout=timeout, env=env)
    return rc, parse_sched_output(out), err


def model_events(run, sites, k, secular_input, goal_approx):
    """Observed program points of a secular run -> lines for bin/abort, plus what was observed after the abort request."""
    ev = run["ev"]
    caller = next((t for t, tag, a in ev if tag == "solve_begin"), None)
    lines = ["cfg %d %d 0 0 0 %d" % (k, 1 if secular_input else 0, 1 if goal_approx else 0)]
    cur_task = {}; pend = {}          # tid -> task index ; task index -> index in `lines` of an event waiting for its look-ahead
    in_improve = False; aborted = None; unknown = []
    obs = {"newton": 0, "packets": 0, "regens": 0, "points": 0, "phase": "none", "improve_newton": 0}
    def settle(i, what):
        # the next event of task i decides the look-ahead field of its previous event
        if i in pend:
            j, kind = pend.pop(i)
            if kind == "next": lines[j] = lines[j] % (1 if what == "lock" else 0)
            else: lines[j] = lines[j] % (1 if what == "task_end" else 0)
    ended = False
    for t, tag, a in ev:
        if tag == "solve_end": ended = True
        if tag == "abort":
            if caller is None: phase = "before-solve"
            elif ended: phase = "after-solve"
            elif in_improve: phase = "improve"
            else: phase = "solve"
            obs["phase"] = phase; aborted = len(lines); lines.append("a"); continue
        if ended or caller is None: continue
        if tag == "improve": in_improve = True; continue
        if tag == "improve_end": in_improve = False; continue
        if in_improve:
            if aborted is not None and tag in ("pnewton", "newton"): obs["improve_newton"] += 1
            continue
        if tag == "task_begin": cur_task[t] = a; continue
        if tag == "task_end": settle(a, "task_end"); cur_task.pop(t, None); continue
        line = None
        if t == caller:
            if tag == "poll1":
                lab = sites.get((1, a >> 1), "?")
                if lab is None: continue
                if lab == "?": unknown.append((1, a >> 1)); continue
                line = "d poll %d %d" % (lab, a & 1)
            elif tag in ("packet", "apacket"): line = "d packet"; obs["packets"] += aborted is not None
            elif tag == "regen": line = "d regen"; obs["regens"] += aborted is not None
            elif tag == "join": line = "d join"
            elif tag == "copy": line = "d copy"
        if line is None and t in cur_task:
            i = cur_task[t]
            if tag == "poll2":
                lab = sites.get((2, a >> 1), "?")
                if lab == "?": unknown.append((2, a >> 1)); continue
                settle(i, "poll"); line = "w %d poll %d" % (i, a & 1)
            elif tag == "next":
                settle(i, "next"); line = "w %d next %%d %d" % (i, max(a, 0)); pend[i] = (len(lines), "next")
            elif tag == "lock": settle(i, "lock"); line = "w %d lock %d" % (i, a)
            elif tag == "crit":
                line = "w %d crit %d %d %%d" % (i, a >> 1, a & 1); pend[i] = (len(lines), "crit")
                obs["newton"] += (aborted is not None and (a & 1))
        if line is not None:
            lines.append(line); obs["points"] += aborted is not None
    for i in list(pend): settle(i, "task_end")
    return lines, obs, unknown


def ensure_abort_bin(ctx):
    """bin/abort = extraction of coq/Ctx/AbortModel.v + ocaml/abort_driver.ml; rebuilt here when a source is newer (only its own
    dependency cone is compiled, never the whole coq/ tree)."""
    wbin = os.path.join(vf.BINDIR, "abort")
    srcs = [os.path.join(vf.VERIF, x) for x in ("coq/Ctx/AbortModel.v", "coq/Extract/Extract_abort.v", "ocaml/abort_driver.ml")]
    if not os.path.exists(wbin) or any(os.path.getmtime(x) > os.path.getmtime(wbin) for x in srcs):
        tmpb = wbin + ".%d.tmp" % os.getpid()
        os.makedirs(vf.BINDIR, exist_ok=True)
        rc, o, e = vf.sh("cd %s/coq && timeout 900 make -s Extract/Extract_abort.vo 2>&1 | tail -5; cd ../ocaml && "
                         "ocamlfind ocamlopt -O2 -w -a -package str,unix,zarith -linkpkg abort.mli abort.ml abort_driver.ml -o %s 2>&1 && mv %s %s"
                         % (vf.VERIF, tmpb, tmpb, wbin), timeout=1800)
        if rc != 0 or not os.path.exists(wbin):
            raise vf.InfraError("building bin/abort failed: %s %s" % (o[-1500:], e[-1500:]))
    return ctx.model_bin("abort")


def sched_phase(ctx, info):
    hs = ctx.compile_harness(["vf_sched.c", "c18_sched.c"], "c18_sched", mode="shimsan", extra_ldflags=WRAP, lib_cflags=HOOK_CFLAGS, tag="c18trace")
    snap = os.path.join(ctx.build_repo("shimsan", HOOK_CFLAGS, "c18trace"), "snap")
    sites, problems = poll_sites(snap)
    for pb in problems:
        ctx.violation("correspondence:abort-model:poll-sites", "the reads of exit_required are no longer the program points of coq/Ctx/AbortModel.v: " + pb,
                      {"kind": "sched-static", "problem": pb}, no_input=True)
    env = ctx.san_env({"UBSAN_OPTIONS": "print_stacktrace=0:halt_on_error=1:exitcode=98"})
    abort_bin = ensure_abort_bin(ctx)
    wd = os.path.join(ctx.scratch, "sched"); os.makedirs(wd, exist_ok=True)
    if ctx.replay:
        rp = json.load(open(ctx.replay))
        jobs = [{"case": {"name": rp["case"], "cls": rp.get("class", "replay"), "text": rp["text"]}, "opts": rp["opts"], "threads": rp["threads"],
                 "only": [(rp["abort_at"], rp.get("mode", "default"), rp.get("seed", 0))]}]
    else:
        jobs = sched_cases_list(ctx)
    st = info["sched"]

    def do_job(ij):
        idx, j = ij
        pol = os.path.join(wd, "c%d.pol" % idx); open(pol, "w").write(j["case"]["text"])
        runs = []
        if "only" in j:
            for a, mode, seed in j["only"]:
                rc, rr, err = run_sched(hs, pol, j["opts"], j["threads"], [a], env, mode, 0, run_seed=seed)
                runs += [(r, mode, seed, err) for r in rr]
            return j, runs, None
        rc, base, err = run_sched(hs, pol, j["opts"], j["threads"], [-1], env)
        if rc != 0 or len(base) != 1:
            raise vf.InfraError("c18_sched baseline failed rc=%s on %s %s: %s" % (rc, j["case"]["name"], j["opts"], err[-1500:]))
        total = next((a for t, tag, a in base[0]["ev"] if tag == "sp_total"), None)
        runs.append((base[0], "default", 0, err))
        if total is None:
            if int(base[0]["kv"].get("status", "0")) == 0:       # a run that ended normally always reports its number of scheduling points
                raise vf.InfraError("c18_sched baseline on %s %s reports no scheduling points: %s" % (j["case"]["name"], j["opts"], err[-800:]))
            return j, runs, None                                  # abnormal end: judged (and reported) below from the run's status
        stride = j["stride"] or 1
        off = ctx.seed % stride
        pts = list(range(off, total + 1, stride))
        for c0 in range(0, len(pts), 400):
            rc, rr, err = run_sched(hs, pol, j["opts"], j["threads"], pts[c0:c0 + 400], env)
            if rc != 0: raise vf.InfraError("c18_sched failed rc=%s on %s: %s" % (rc, j["case"]["name"], err[-1500:]))
            runs += [(r, "default", 0, err) for r in rr]
        if j["nrandom"]:
            # random schedules: the number of points differs from run to run; placements spread over the baseline's range and beyond
            rr_rng = __import__("random").Random(ctx.seed * 7919 + idx)
            pts = [rr_rng.randint(0, int(total * 1.3)) for _ in range(j["nrandom"])]
            seed = ctx.seed * 1000 + idx
            rc, rr, err = run_sched(hs, pol, j["opts"], j["threads"], pts, env, "random", seed)
            if rc != 0: raise vf.InfraError("c18_sched (random) failed rc=%s on %s: %s" % (rc, j["case"]["name"], err[-1500:]))
            for n_, r in enumerate(rr): r["kv"]["seed_base"] = seed
            runs += [(r, "random", seed, err) for r in rr]
        return j, runs, total

    with cf.ThreadPoolExecutor(max_workers=int(os.environ.get("VERIF_JOBS", "4"))) as ex:
        done = list(ex.map(do_job, list(enumerate(jobs))))
    ctx.log("scheduler phase: %d runs of the real asynchronous solve" % sum(len(r) for _, r, _ in done))

    recs = []; model_in = []; model_meta = []
    for j, runs, total in done:
        c = j["case"]; k = j["threads"]; algo = j["opts"][1]; approx = "a" in j["opts"][3:4]
        tag = "%s:%s:j=%d" % (c["name"], "".join(j["opts"]), k)
        st["cases"][tag] = {"points": total, "runs": len(runs)}
        for r, mode, seed, err in runs:
            kv = r["kv"]; status = int(kv.get("status", "0")); a_at = int(kv.get("abort_at", "-1"))
            rep = {"kind": "sched", "case": c["name"], "class": c.get("cls"), "text": c["text"], "opts": j["opts"], "threads": k, "abort_at": a_at,
                   "mode": mode, "seed": int(kv.get("seed", "0")) if mode == "random" else 0,
                   "how": "harness/c18_sched FILE <opts> -j <threads> --abort-at <n> [--random --seed s]   (or ./check C18 --replay <this file>)"}
            if mode == "random":
                rep["how"] = "harness/c18_sched FILE <opts> -j <threads> --abort-at <n> --random --run-seed <seed>   (or ./check C18 --replay <this file>)"
            st["runs"] += 1; st["by_algo"][algo] += 1; st["by_threads"][str(k)] += 1; st["by_mode"][mode] += 1
            evd = collections.Counter(tagx for _, tagx, _ in r["ev"])
            # (1) shim verdict: deadlock / lost wake-up, sanitizers, crash
            if status != 0:
                kind = STATUS_NAME.get(status, "status%d" % status); what = kv.get("what", "-")
                if status == 5 and "exit-97" in what: kind = "asan"
                if status == 5 and "exit-98" in what: kind = "ubsan"
                m = re.search(r"(ERROR: AddressSanitizer: [^\n]*|runtime error: [^\n]*)", err or "")
                ctx.violation("sched:%s:%s" % (kind, tag), "asynchronous solve with abort at scheduling point %d (%s schedule) ends with %s (%s)%s"
                              % (a_at, mode, kind, what, (": " + m.group(1)) if m else ""), rep)
                st["bad_status"] += 1
                continue
            val = {tagx: a for _, tagx, a in r["ev"]}
            # (2) callback exactly once, after the solve
            if val.get("cb_total") != 1:
                ctx.violation("async:callback-count:%s" % val.get("cb_total"), "callback invoked %s times for one asynchronous solve (%s, abort at point %d)"
                              % (val.get("cb_total"), tag, a_at), rep)
            if "cb_early" in evd:
                ctx.violation("async:callback-before-solve-end", "callback invoked while the solve was still running (%s, abort at point %d)" % (tag, a_at), rep)
            st["callback_once"] += val.get("cb_total") == 1
            aborted = "abort" in evd
            st["aborted_runs"] += aborted
            try: res = S.parse_export(r["export"])
            except Exception as e_:
                res = S.SolveResult(); res.kind = "unparsable"; res.msg = repr(e_)
            errflag = val.get("err_final") == 1
            # (3) the model: every secular run
            obs = None
            if algo == "s":
                lines, obs, unknown = model_events(r, sites, k, c.get("cls") == "secular", approx)
                for u in unknown[:1]:
                    ctx.violation("correspondence:abort-model:unknown-poll-site", "read of exit_required at a site the model does not have: file %d line %d" % u, rep, no_input=True)
                lines.append("end %d" % (1 if errflag else 0))
                model_in.append("\n".join(lines)); model_meta.append((tag, rep, obs, a_at, k, errflag, res))
                st["phase"][obs["phase"]] += 1
            # (4) outcome: error flag (with the intended text) or certified inclusions
            if errflag:
                st["ended_with_error"] += 1
                if res.kind == "solve-err" and aborted and res.msg.strip() != EXIT_MSG:
                    ctx.violation("abort:error-message:%s" % tag, "aborted solve reports %r instead of %r" % (res.msg[:80], EXIT_MSG), rep)
                if not aborted:
                    ctx.violation("async:error-without-abort:%s" % tag, "asynchronous solve without abort request ends with the error %r" % (res.msg[:80],), rep)
                continue
            if res.kind != "ok":
                ctx.violation("async:no-result:%s" % tag, "no error flag and no results (%s %s), abort at point %d" % (res.kind, res.msg[:80], a_at), rep)
                continue
            st["ended_with_results"] += 1
            recs.append({"case": c, "opts": j["opts"], "res": res, "poly": None, "oracle": None, "why": "", "rep": rep, "tag": tag, "aborted": aborted})
            # (5) an abort request that changes nothing: the known findings
            if aborted and algo == "u" and "solve_end" in evd and r["ev"].index(next(e for e in r["ev"] if e[1] == "abort")) < r["ev"].index(next(e for e in r["ev"] if e[1] == "solve_end")) \
               and r["ev"].index(next(e for e in r["ev"] if e[1] == "abort")) > r["ev"].index(next(e for e in r["ev"] if e[1] == "solve_begin")):
                n_after = sum(1 for e in r["ev"][r["ev"].index(next(e for e in r["ev"] if e[1] == "abort")):] if e[1] == "pnewton")
                st["classic_ignored"] += 1; st["classic_newton_after_abort_max"] = max(st["classic_newton_after_abort_max"], n_after)
                ctx.violation("abort:ignored:u", "the classic driver never reads exit_required: abort at point %d, %d Newton steps later the solve ends normally" % (a_at, n_after), rep)
            if obs is not None and obs["phase"] == "improve":
                st["improve_ignored"] += 1; st["improve_newton_after_abort_max"] = max(st["improve_newton_after_abort_max"], obs["improve_newton"])
                ctx.violation("abort:ignored:s", "mps_improve never reads exit_required: abort at point %d inside the refinement, %d Newton steps later the solve ends normally"
                              % (a_at, obs["improve_newton"]), rep)

    # ---- the model replay (bin/abort), all secular runs
    if model_in:
        chunks = [model_in[i::8] for i in range(8)]
        def run_chunk(ch):
            if not ch: return []
            rc, o, e = vf.sh([abort_bin], input="\n".join(ch) + "\n", timeout=900)
            if rc != 0: raise vf.InfraError("bin/abort failed: %s" % e[-1500:])
            return o.strip().split("\n")
        with cf.ThreadPoolExecutor(max_workers=4) as ex:
            outs = list(ex.map(run_chunk, chunks))
        verdicts = [None] * len(model_in)
        for ci, o in enumerate(outs):
            if len(o) != len(chunks[ci]): raise vf.InfraError("bin/abort returned %d lines for %d runs" % (len(o), len(chunks[ci])))
            for t_, line in enumerate(o): verdicts[ci + 8 * t_] = line
        for (tag, rep, obs, a_at, k, errflag, res), line, text in zip(model_meta, verdicts, model_in):
            st["model_replayed"] += 1
            if not line.startswith("ok "):
                st["model_rejected"] += 1
                ctx.violation("correspondence:abort-model:%s" % tag, "the observed program points of the real solve (abort at point %d) are no run of the transition system of "
                              "coq/Ctx/AbortModel.v: %s" % (a_at, line), dict(rep, model_input=text[:6000], model_says=line), no_input=True)
                continue
            d = dict(x.split("=") for x in line.split()[1:])
            st["model_accepted"] += 1; st["model_steps"] += int(d["steps"])
            if obs["phase"] == "solve":
                # the property's predicate on what was OBSERVED after the request: bounded work, as proved for the model
                st["prompt_checked"] += 1
                for key in ("newton", "packets", "regens", "points"): st["after_max"][key] = max(st["after_max"][key], obs[key])
                bound = {"newton": k, "packets": 2, "regens": 2, "points": 5 * k + 7}
                for key in ("newton", "packets", "regens", "points"):
                    if obs[key] > bound[key]:
                        ctx.violation("abort:not-prompt:%s:%s" % (key, tag), "after the abort request at point %d the secular solver still performed %d %s (bound %d with %d threads)"
                                      % (a_at, obs[key], key, bound[key], k), rep)
                if int(d["after_newton"]) != obs["newton"] or int(d["after_packets"]) != obs["packets"] or int(d["after_regens"]) != obs["regens"]:
                    ctx.violation("correspondence:abort-model:counts:%s" % tag, "model run and observation disagree on the work after the abort: %s vs %s" % (line, obs), rep, no_input=True)
                if int(d["after_steps"]) > int(d["rank_at_abort"]) or int(d["rank_at_abort"]) > int(d["bound"]):
                    ctx.violation("correspondence:abort-model:rank:%s" % tag, "the replayed run contradicts C18_abort_steps_le_rank: %s" % line, rep, no_input=True)
                st["after_steps_max"] = max(st["after_steps_max"], int(d["after_steps"])); st["rank_at_abort_max"] = max(st["rank_at_abort_max"], int(d["rank_at_abort"]))

    # ---- results returned without the error flag: the inclusion guarantee, judged by the certified oracle
    groups = e2e.certify_records_grouped(ctx, recs, max_bits=ctx.pick(400, 800), max_degree=12, workers=4)
    st["oracle_certified_result_sets"] = sum(len(g) for g in groups)
    for grp in groups:
        orc = grp[0]["oracle"]; cache = {}
        for rec in grp:
            discs = S.discs_of(rec["res"]); zr = rec["res"].meta.get("zero_roots", 0)
            if any(d[2] is None for d in discs):
                st["non_finite_radius"] += 1
                ctx.violation("abort:non-finite-radius:%s" % rec["tag"], "solve (abort at point %s) returned without error a disc with a non finite radius" % rec["rep"]["abort_at"], rec["rep"])
                continue
            key = tuple(discs)
            if key not in cache:
                try: cache[key] = e2e.judge_discs(orc, discs + ([(Fr(0), Fr(0), Fr(0))] if zr else []))
                except Exception as e_: cache[key] = None
            if cache[key] is None: st["oracle_error"] += 1; ctx.notes.append("oracle could not judge the result set of %s (abort at %s)" % (rec["tag"], rec["rep"]["abort_at"])); continue
            bounds, covered, uncovered = cache[key]
            st["result_sets_judged"] += 1; st["distinct_result_sets"] = st.get("distinct_result_sets", 0)
            for i, (lo, hi) in enumerate(bounds[:len(discs)]):
                st["discs_judged"] += 1
                if hi == 0:
                    ctx.violation("abort:no-root-in-disc:%s" % rec["tag"], "solve (abort at point %s) returned without error a disc that contains no root (certified): disc %d centre (%.17g, %.17g) radius %.3g"
                                  % (rec["rep"]["abort_at"], i, float(discs[i][0]), float(discs[i][1]), float(discs[i][2])), dict(rec["rep"], disc=[str(x) for x in discs[i]]))
                elif lo >= 1: st["discs_with_root"] += 1
            if any(uncovered):
                ctx.violation("abort:root-not-covered:%s" % rec["tag"], "solve (abort at point %s) returned without error and root %d of the input is in none of the returned discs (certified)"
                              % (rec["rep"]["abort_at"], list(uncovered).index(True)), rec["rep"])
        st["distinct_result_sets"] = st.get("distinct_result_sets", 0) + len(cache)
    for grp in groups:
        try: grp[0]["oracle"].close()
        except Exception: pass
    if not ctx.replay and recs and not st["result_sets_judged"]:
        raise vf.InfraError("C18: %d result sets were returned without the error flag and the oracle judged none of them" % len(recs))
    if not ctx.replay and (not st["runs"] or not st["aborted_runs"] or (model_in and st["model_replayed"] != len(model_in))):
        raise vf.InfraError("C18: scheduler phase incomplete: %d runs, %d with an abort request, %d of %d secular runs replayed through the model"
                            % (st["runs"], st["aborted_runs"], st["model_replayed"], len(model_in)))



def run(ctx):
    # findings recorded in this property's own fragment count as known also before the integrator has merged it
    try:
        frag = json.load(open(os.path.join(vf.VERIF, "known", "C18.json")))["findings"]
        have = set(k.get("signature") for k in ctx.known)
        ctx.known += [f for f in frag if f.get("signature") not in have and f.get("status", "open") == "open"]
    except Exception:
        pass
    ctx.prove()
    he = ctx.compile_harness(["c18_error.c"], "c18_error", mode="san")
    hr = ctx.compile_harness(["c15_reuse.c"], "c15_reuse", mode="san")
    ha = ctx.compile_harness(["c18_async.c"], "c18_async", mode="san")
    hsites = ctx.compile_harness(["c18_sites.c"], "c18_sites", mode="san")
    info = {"error_cases": 0, "error_faithful": 0, "model_old_differs": 0, "error_lengths": {}, "sticky_cases": 0,
            "async_runs": 0, "abort_runs": 0, "abort_no_error": 0, "abort_error_flag": 0}
    C = collections.Counter
    info["sites"] = collections.defaultdict(int, {"by_site": C(), "distinct_sites": set()})
    info["sched"] = collections.defaultdict(int, {"cases": {}, "by_algo": C(), "by_threads": C(), "by_mode": C(), "phase": C(),
                                                   "after_max": {"newton": 0, "packets": 0, "regens": 0, "points": 0}})
    if ctx.replay:
        obj = json.load(open(ctx.replay))
        k = obj.get("kind")
        if k == "error":
            rc, out, err = vf.sh([he], input="%s %s\n" % (obj["site"], obj["arg"]), timeout=60, env=san_env(ctx))
            intended = PREFIX[obj["site"]] + obj["arg"]
            m = re.search(r"msg=([0-9a-f]+)", out)
            got = bytes.fromhex(m.group(1)).decode("latin1") if m else None
            if rc != 0 or got != intended:
                ctx.violation(obj.get("signature", "error-message:replay"), "replay: message %r, intended %r, rc=%d" % (got, intended, rc), obj)
        elif k == "sticky":
            sticky_cases(ctx, hr, info)
        elif k == "sched":
            sched_phase(ctx, info)
        elif k == "site":
            rc, out, err = vf.sh([hsites] + obj["argv"], timeout=120, env=san_env(ctx))
            m = re.search(r"msg=([0-9a-f]+)", out or "")
            got = bytes.fromhex(m.group(1)).decode("latin1") if m else None
            why = judge_site_message(got, obj["intended"], obj.get("accept"), obj.get("contains"))
            if rc != 0 or why:
                ctx.violation(obj.get("signature", "error-message:replay"), "replay: %s, rc=%d" % (why or "abnormal end", rc), obj)
        elif k == "site-static":
            for mm_ in source_sites(ctx.snap("san"))["mismatch"]:
                if mm_["format"] == obj.get("format"):
                    ctx.violation(obj.get("signature", "error-message:replay"), "replay: %s (%s:%d): format %r has %d conversions and %d arguments"
                                  % (mm_["function"], mm_["file"], mm_["line"], mm_["format"][:100], mm_["conversions"], mm_["arguments"]), obj, no_input=True)
        elif k == "async":
            async_cases(ctx, ha, info)
        else:
            raise vf.InfraError("C18: replay file of unknown kind %r" % (k,))
        return ctx.finish("proof", {"evaluations": 1, "distinct_nontrivial": 1, "rule": "replay", "samples": [str(obj)[:200]],
                                    "kind_histogram": {str(k): 1}, "trusted_base": ["replay"]}, [])
    base = [22, 27, 30, 31, 32, 33, 34, 40, 63, 64, 65, 100, 128, 200, 300]
    totals = sorted(set(base + [ctx.rng.randint(22, 330) for _ in range(ctx.pick(6, 120))] + (list(range(22, 70)) if not ctx.quick() else [])))
    error_cases(ctx, he, totals, info)
    site_phase(ctx, hsites, info)
    sticky_cases(ctx, hr, info)
    async_cases(ctx, ha, info)
    sched_phase(ctx, info)
    ctx.proof_violation_if_broken(search=None)
    for what, n in (("mps_error length cases", info["error_cases"]), ("call-site cases", info["sites"]["cases"]), ("sticky-flag cases", info["sticky_cases"]),
                    ("asynchronous runs", info["async_runs"])):
        if not n: raise vf.InfraError("C18: no %s were run: the check would pass without having looked" % what)
    sc = json.loads(json.dumps(info["sched"]))
    si = dict(info["sites"]); si["distinct_sites"] = sorted(si["distinct_sites"]); si["by_site"] = dict(si["by_site"])
    cov = {
        "evaluations": info["error_cases"] + si.get("cases", 0) + info["sticky_cases"] + info["async_runs"] + sc.get("runs", 0),
        "distinct_nontrivial": info["error_cases"] + si.get("cases", 0) + info["sticky_cases"] + info["abort_runs"] + sc.get("aborted_runs", 0),
        "rule": "error cases = (call site, message length, argument flavour) each in its own process and through the extracted model; sticky cases = (algorithm, polynomial, sync/async); abort runs = distinct injection delays (real threads) + distinct (case, threads, schedule, scheduling point of the abort request) under the deterministic scheduler",
        "scheduler_phase": sc,
        "call_sites": si,
        "error_cases": info["error_cases"], "error_messages_faithful": info["error_faithful"],
        "error_length_histogram": info["error_lengths"],
        "sticky_cases": info["sticky_cases"], "async_runs": info["async_runs"], "abort_runs": info["abort_runs"],
        "abort_outcomes": {"returned_without_error": info["abort_no_error"], "returned_with_error_flag": info["abort_error_flag"]},
        "kind_histogram": {"error": info["error_cases"], "sticky": info["sticky_cases"], "async": info["async_runs"], "sched": sc.get("runs", 0)},
        "samples": [["file", arg_for("file", 32, "plain")], ["opt", arg_for("opt", 40, "plain")], STICKY[0], ["async", "s a deg seed delay second"]],
        "trusted_base": [
            "Coq 8.16.1 kernel; theorems closed under the global context",
            "extraction: ExtrOcamlBasic + ExtrOcamlNativeString only; ocaml/ctx_driver.ml",
            "vsnprintf and the x86-64 SysV va_list are modelled (abstract renderer + cursor), not verified",
            "checks/C18.py source_sites: a small reader of C call sites, string literals and printf conversions applied to the snapshot (intended wording of the missing-degree message and of the messages with a number; conversions vs arguments of every literal error format)",
            "extraction of coq/Ctx/AbortModel.v (bin/abort) and ocaml/abort_driver.ml: depth-first search for the unobserved driver steps and oracle values of a model run that reproduces the observed program points",
            "scheduler shim harness/vf_sched.c (C06's), hooked build harness/c18_hooks.h (every access to exit_required calls the harness), link-time wrappers in harness/c18_sched.c",
            "abort model: numerics are oracle values; regeneration, Aberth packets, cleanup, job_queue_next and the locked region of a worker are atomic; pool = assign/wait abstraction (C06)",
            "root oracle bin/cert (lib/oracle.py) for results returned without the error flag",
            "c18_async.c: real threads and wall-clock delays; the one-task pool of C18_async_callback_once_partial is a definition, not the C06 pool model",
        ],
    }
    assumptions = [
        "callers pass the arguments their format consumes",
        "'promptly' is measured in wall-clock time against a 20 s budget on a loaded machine: partial",
        "under the scheduler the abort is placed at scheduling points (pthread calls and reads of the flag); placements between two of them are covered by the theorem only",
        "jacobi_iterations, crude mode and avoid_multiprecision are in the model but not driven by the scheduler phase",
    ]
    return ctx.finish("proof", cov, assumptions)
