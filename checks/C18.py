"""C18 -- errors are reported faithfully; asynchronous solves complete exactly once.

proof   : coq/Props/Properties_C18.v (mps_error over an abstract vsnprintf with explicit va_list cursor,
          early return of mps_mpsolve, mps_caller on a one-task pool)
tie     : (i) mps_error call sites driven through the API (harness/c18_error.c) with argument texts of
          many lengths; message compared with the intended text and with the extracted model (bin/ctx error);
          (ii) results snapshot before/after a solve with the flag set (harness/c15_reuse.c);
          (iii) mps_mpsolve_async with a callback counter and abort injection under real threads
          (harness/c18_async.c).
verdict : on the real library's output only (message == intended text, results unchanged, callback count,
          time to return after abort); wall-clock "promptly" is partial.
"""
import json, re
import vf

PREFIX = {"file": "Error while opening file: ", "opt": "Unrecognized option: "}


def san_env(ctx):
    env = ctx.san_env()
    return env


def arg_for(site, total, flavour):
    k = total - len(PREFIX[site])
    if k < 1: return None
    if site == "file":
        if k < 2: return None
        body = ("%s%d%n" * k)[:k - 2] if flavour == "percent" else ("a" * (k - 2))
        return "/q" + body
    if k > 220: return None           # longer lines are rejected earlier with "Maximum line length exceeded"
    return ("zq" * k)[:k]


def model_msgs(ctx, site, arg):
    line = "L%s\tA\t|\t%s\t|\tJUNK\n" % (PREFIX[site], arg)
    out = {}
    for v in ("old", "fixed"):
        o = ctx.run_model("ctx", line, args=["error", v]).splitlines()[0]
        m = re.match(r"flag=(\d) msg=(.*)\tintended=(.*)$", o)
        out[v] = (int(m.group(1)), m.group(2), m.group(3))
    return out


def error_cases(ctx, h, totals, info):
    for site in ("file", "opt"):
        for total in totals:
            for flavour in (("plain", "percent") if site == "file" and total in (40, 64, 200) else ("plain",)):
                arg = arg_for(site, total, flavour)
                if arg is None: continue
                intended = PREFIX[site] + arg
                rc, out, err = vf.sh([h], input="%s %s\n" % (site, arg), timeout=60, env=san_env(ctx))
                info["error_cases"] += 1
                info["error_lengths"][str(min(total // 32 * 32, 320))] = info["error_lengths"].get(str(min(total // 32 * 32, 320)), 0) + 1
                mm = model_msgs(ctx, site, arg)
                replay = {"kind": "error", "site": site, "arg": arg}
                assert mm["fixed"][1] == intended == mm["fixed"][2]
                if rc != 0:
                    if total > 32:
                        ctx.violation("error-message:va_list-reuse:%s" % site,
                                      "mps_error re-reads a consumed va_list when the message (%d chars) does not fit 32 bytes: crash in vsnprintf (rc=%d)" % (total, rc), replay)
                    else:
                        ctx.violation("error-message:crash:%s:len%d" % (site, total), "crash while reporting an error (rc=%d): %s" % (rc, err[-200:]), replay)
                    continue
                m = re.search(r"flag=(\d) len=(\d+) msg=(\S+)", out)
                if not m:
                    ctx.violation("error-message:no-output:%s" % site, "harness produced no result line", replay); continue
                flag = int(m.group(1))
                msg = "" if m.group(3) == "NULL" else bytes.fromhex(m.group(3)).decode("latin1")
                if flag != 1:
                    ctx.violation("error-flag-not-set:%s" % site, "operation failed but mps_context_has_errors is false", replay)
                if msg == intended:
                    info["error_faithful"] += 1
                    if mm["old"][1] != msg: info["model_old_differs"] += 1
                    continue
                # predicate violated on the real code; classify with the model of the code as it is
                if total == 32 and msg == intended[:31]:
                    sig = "error-message:truncated-at-32:%s" % site
                    if mm["old"][1] != msg:
                        ctx.violation("correspondence:mps_error:len32", "model of the old code predicts %r, real %r" % (mm["old"][1], msg), replay)
                elif total > 32 and intended.startswith(msg) and len(msg) >= total - 2:
                    sig = "error-message:truncated:%s:len%d" % (site, total)
                elif total > 32:
                    sig = "error-message:va_list-reuse:%s" % site
                else:
                    sig = "error-message:wrong:%s:len%d" % (site, total)
                ctx.violation(sig, "retrievable message %r is not the intended text %r (length %d)" % (msg[:60], intended[:60], total), replay)


STICKY = [
    ("u", "poly m 5 -1 0 3 0 0 1"), ("s", "poly m 7 2 -1 0 0 5 0 0 1"), ("s", "poly s 4 1 1 1 2 1 3 1 4"),
    ("u", "poly m 12 1 -1 1 -1 1 -1 1 -1 1 -1 1 -1 3"),
]


def sticky_cases(ctx, h, info):
    import importlib
    for algo, poly in STICKY:
        for solve2 in ("solve", "solve_async"):
            script = ["new", "algo " + algo, "goal i", poly, "solve", "bad x^", "goal a", "prec 300", solve2, "get_roots", "free"]
            rc, out, err = vf.sh([h], input="\n".join(script) + "\n", timeout=120, env=san_env(ctx))
            info["sticky_cases"] += 1
            replay = {"kind": "sticky", "script": script}
            if rc != 0:
                ctx.violation("sticky:crash", "solve with the error flag set ends abnormally rc=%d" % rc, replay); continue
            blocks, cur, st = {}, None, {}
            for l in out.splitlines():
                w = l.split()
                if l.startswith("roots "): cur = int(w[1]); blocks[cur] = []
                elif l.startswith("r ") and cur is not None: blocks[cur].append(l)
                elif l.startswith("st "): st[int(w[1])] = l; cur = None
            cb = re.search(r"end cb=(\d+)", out)
            if 5 not in blocks or 9 not in blocks or not blocks[5]:
                ctx.violation("sticky:no-results", "no results exported", replay); continue
            if " err=1 " not in st.get(6, ""):
                ctx.violation("error-flag-not-set:inline", "malformed inline polynomial did not set the error flag", replay); continue
            if blocks[5] != blocks[9]:
                ctx.violation("sticky:results-changed", "a solve with the error flag set changed the previous results (%s, %s)" % (algo, poly), replay)
            f = lambda l: re.sub(r"heap=\d+ thr=-?\d+ ?\S*", "", l.split(" ", 3)[3])
            if f(st[5]) .replace("err=0", "err=1") != f(st[9]):
                ctx.violation("sticky:state-changed", "a solve with the error flag set changed the context state: %s -> %s" % (f(st[5]), f(st[9])), replay)
            if solve2 == "solve_async" and (not cb or int(cb.group(1)) != 1):
                ctx.violation("async:callback-count:%s" % (cb.group(1) if cb else "?"), "callback of an asynchronous solve on a context with errors ran %s times" % (cb.group(1) if cb else "?"), replay)


def parse_async(out):
    d = {}
    for l in out.splitlines():
        for k, v in re.findall(r"(\w+)=(\S+)", l.split(" msg=")[0]):
            d[k] = v
        m = re.search(r" msg=(.*)$", l)
        if m and "second_msg" not in l: d["msg"] = m.group(1)
    return d


def async_cases(ctx, h, info):
    rng = ctx.rng
    deg = ctx.pick(200, 320)
    n_abort = ctx.pick(4, 24)
    budget_ms = 20000.0
    for algo in ("s", "u"):
        for goal in (("a",) if ctx.quick() else ("a", "i")):
            seed = rng.randint(1, 10 ** 6)
            base_cmd = [h, algo, goal, str(deg), str(seed)]
            rc, out, err = vf.sh(base_cmd + ["-1", "second"], timeout=200, env=san_env(ctx))
            b = parse_async(out)
            info["async_runs"] += 1
            replay = {"kind": "async", "args": base_cmd[1:] + ["-1", "second"]}
            if rc != 0 or "cb" not in b:
                ctx.violation("async:abnormal-end", "asynchronous solve ended abnormally rc=%d %s" % (rc, err[-200:]), replay); continue
            runs = [(b, replay, None)]
            t_base = float(b.get("t_cb_ms", "100"))
            delays = [int(rng.uniform(0.02, 0.8) * t_base * 1000) for _ in range(n_abort)] + [int(t_base * 3000) + 400000]
            for dly in delays:
                args = base_cmd[1:] + [str(dly), "second"]
                rc, out, err = vf.sh([h] + args, timeout=200, env=san_env(ctx))
                info["async_runs"] += 1; info["abort_runs"] += 1
                r = parse_async(out)
                rp = {"kind": "async", "args": args}
                if rc != 0 or "cb" not in r:
                    ctx.violation("async:abnormal-end", "asynchronous solve with abort ended abnormally rc=%d %s" % (rc, err[-200:]), rp); continue
                runs.append((r, rp, dly))
            for r, rp, dly in runs:
                if r.get("timeout") == "1":
                    ctx.violation("async:no-callback", "callback not invoked within 120 s", rp); continue
                if r["cb"] != "1":
                    ctx.violation("async:callback-count:%s" % r["cb"], "callback invoked %s times for one asynchronous solve" % r["cb"], rp)
                if r["same"] != "1":
                    ctx.violation("async:results-change-after-callback", "results read in the callback differ from those read 300 ms later (solve had not ended)", rp)
                if r["finite"] != "1":
                    ctx.violation("abort:non-finite-radius", "results after abort contain a non finite radius", rp)
                if dly is None: continue
                ta = float(r["t_abort_ms"])
                if ta > budget_ms:
                    ctx.violation("abort:not-prompt:%s" % algo, "solve returned %.0f ms after mps_context_abort" % ta, rp)
                if r["err"] == "0" and ta >= 0:
                    info["abort_no_error"] += 1
                    if r["hash"] == b["hash"] and ta > 0.25 * t_base:
                        # same results as the run without abort, error flag clear: the request had no effect
                        ctx.violation("abort:ignored:%s" % algo,
                                      "abort after %.0f ms of a %.0f ms solve is ignored: solve runs to completion (%.0f ms more), same results, no error flag"
                                      % (dly / 1000.0, t_base, ta), rp)
                elif r["err"] == "1":
                    info["abort_error_flag"] += 1
                if r["err"] == "0" and r.get("second_err") == "0" and "second_radexp" in r and \
                   int(r["second_radexp"]) > int(r["fresh_radexp"]) + 100 and int(b["second_radexp"]) <= int(b["fresh_radexp"]) + 100:
                    ctx.violation("abort:exit_required-sticky:%s" % algo,
                                  "exit_required is never cleared: after an abort request the next solve on the same context stops early without error (largest radius 2^%s instead of 2^%s on a fresh context)" % (r["second_radexp"], r["fresh_radexp"]), rp)


def run(ctx):
    ctx.prove()
    he = ctx.compile_harness(["c18_error.c"], "c18_error", mode="san")
    hr = ctx.compile_harness(["c15_reuse.c"], "c15_reuse", mode="san")
    ha = ctx.compile_harness(["c18_async.c"], "c18_async", mode="san")
    info = {"error_cases": 0, "error_faithful": 0, "model_old_differs": 0, "error_lengths": {}, "sticky_cases": 0,
            "async_runs": 0, "abort_runs": 0, "abort_no_error": 0, "abort_error_flag": 0}
    if ctx.replay:
        obj = json.load(open(ctx.replay))
        k = obj.get("kind")
        if k == "error":
            rc, out, err = vf.sh([he], input="%s %s\n" % (obj["site"], obj["arg"]), timeout=60, env=san_env(ctx))
            intended = PREFIX[obj["site"]] + obj["arg"]
            m = re.search(r"msg=([0-9a-f]+)", out)
            got = bytes.fromhex(m.group(1)).decode("latin1") if m else None
            if rc != 0 or got != intended:
                ctx.violation(obj.get("signature", "error-message:replay"), "replay: message %r, intended %r, rc=%d" % (got, intended, rc), obj)
        elif k == "sticky":
            sticky_cases(ctx, hr, info)
        else:
            async_cases(ctx, ha, info)
        return ctx.finish("proof", {"evaluations": 1, "distinct_nontrivial": 1, "rule": "replay", "samples": [str(obj)[:200]],
                                    "kind_histogram": {str(k): 1}, "trusted_base": ["replay"]}, [])
    base = [22, 27, 30, 31, 32, 33, 34, 40, 63, 64, 65, 100, 128, 200, 300]
    totals = sorted(set(base + [ctx.rng.randint(22, 330) for _ in range(ctx.pick(6, 120))] + (list(range(22, 70)) if not ctx.quick() else [])))
    error_cases(ctx, he, totals, info)
    sticky_cases(ctx, hr, info)
    async_cases(ctx, ha, info)
    ctx.proof_violation_if_broken(search=None)
    cov = {
        "evaluations": info["error_cases"] + info["sticky_cases"] + info["async_runs"],
        "distinct_nontrivial": info["error_cases"] + info["sticky_cases"] + info["abort_runs"],
        "rule": "error cases = (call site, message length, argument flavour) each in its own process and through the extracted model; sticky cases = (algorithm, polynomial, sync/async); abort runs = distinct injection delays",
        "error_cases": info["error_cases"], "error_messages_faithful": info["error_faithful"],
        "error_length_histogram": info["error_lengths"],
        "sticky_cases": info["sticky_cases"], "async_runs": info["async_runs"], "abort_runs": info["abort_runs"],
        "abort_outcomes": {"returned_without_error": info["abort_no_error"], "returned_with_error_flag": info["abort_error_flag"]},
        "kind_histogram": {"error": info["error_cases"], "sticky": info["sticky_cases"], "async": info["async_runs"]},
        "samples": [["file", arg_for("file", 32, "plain")], ["opt", arg_for("opt", 40, "plain")], STICKY[0], ["async", "s a deg seed delay second"]],
        "trusted_base": [
            "Coq 8.16.1 kernel; theorems closed under the global context",
            "extraction: ExtrOcamlBasic + ExtrOcamlNativeString only; ocaml/ctx_driver.ml",
            "vsnprintf and the x86-64 SysV va_list are modelled (abstract renderer + cursor), not verified",
            "async: real threads and wall-clock delays (not the deterministic scheduler); the one-task pool of the model is a definition, not the C06 pool model",
            "results after abort are only checked for finite radii and stability here; inclusion is validated by the C01/C02 oracle",
        ],
    }
    assumptions = [
        "callers pass the arguments their format consumes",
        "'promptly' is measured in wall-clock time against a 20 s budget on a loaded machine: partial",
        "abort is injected at random delays, not at every scheduling point",
    ]
    return ctx.finish("proof", cov, assumptions)
