(* C07 -- line-protocol driver around the extracted cluster analysis model (module Cluster).
   stdin : one case per line, blank separated:
             <id> <variant> <n> <T> <TN> <old> <pick> <withcomp>
           variant : seq | par
           T, TN   : n*n characters 0/1, row major: T[i][j] = touch(i,j) on the radii passed to the
                     routine, TN the same on the radii stored in the roots ("-" for n = 0)
           old     : previous clusterization in list order, clusters separated by ';', members by ','
                     (an empty cluster is an empty field), e.g.  0,2,1;3;;4
           pick    : first | last | h<seed>   (order of base selection for cluster_par)
           withcomp: 1 = also print the specification [components]
   stdout: <id> iso=<0|1> raw=<model clusterization in list order> canon=<sorted> comp=<sorted | -> plain=<0|1>
           or <id> OUT-OF-FUEL
           The model run is one whole call: cluster_step_fd (seq) / cluster_step_m (par), i.e. the newton-isolation test
           AS CODED (loops and breaks, on the matrix TN of the stored radii) followed by the traversal; iso is that test's
           outcome, plain the outcome of the plain test newton_isolated (equal by C07_newton_iso_*_as_coded).          *)
open Cluster

let rec nat_of_int (k : int) : nat = if k <= 0 then O else S (nat_of_int (k - 1))
let rec int_of_nat (x : nat) : int =
  let rec go acc = function O -> acc | S y -> go (acc + 1) y in go 0 x

let parse_old (s : string) : int list list =
  if s = "-" then [] else
  List.map (fun c -> if c = "" then [] else List.map int_of_string (String.split_on_char ',' c))
    (String.split_on_char ';' s)

let show (cs : int list list) : string =
  String.concat ";" (List.map (fun c -> String.concat "," (List.map string_of_int c)) cs)

let canon (cs : int list list) : int list list =
  List.sort compare (List.map (List.sort compare) cs)

let () =
  try
    while true do
      let line = input_line stdin in
      match String.split_on_char ' ' (String.trim line) with
      | [id; variant; ns; t; tn; olds; pick; wc] ->
        let n = int_of_string ns in
        let nats = Array.init (n + 1) nat_of_int in
        let mat (s : string) : nat -> nat -> bool =
          fun i j ->
            let a = int_of_nat i and b = int_of_nat j in
            if a < n && b < n then s.[a * n + b] = '1' else false in
        let touch = mat t and touchN = mat tn in
        let old_i = parse_old olds in
        let old = List.map (List.map (fun k -> if k >= 0 && k <= n then nats.(k) else nat_of_int k)) old_i in
        let ntot = List.length (List.concat old_i) in
        let plain = newton_isolated touchN (nat_of_int ntot) in
        let iso = (match variant with "seq" -> newton_iso_fd touchN (nat_of_int ntot) | _ -> newton_iso_m touchN (nat_of_int ntot)) in
        let pickf : nat list -> nat =
          match pick with
          | "first" -> (fun _ -> O)
          | "last" -> (fun q -> nat_of_int (List.length q - 1))
          | _ ->
            let seed = int_of_string (String.sub pick 1 (String.length pick - 1)) in
            (fun q -> nat_of_int ((Hashtbl.hash (seed, List.map int_of_nat q)) mod (max 1 (List.length q)))) in
        let res =
          match variant with
          | "seq" -> cluster_step_fd touchN touch old
          | "par" -> cluster_step_m pickf touchN touch old
          | _ -> failwith "variant" in
        (match res with
         | None -> Printf.printf "%s OUT-OF-FUEL\n" id
         | Some cs ->
           let csi = List.map (List.map int_of_nat) cs in
           let comp =
             if wc = "1" then show (canon (List.map (List.map int_of_nat) (components touch old))) else "-" in
           Printf.printf "%s iso=%d raw=%s canon=%s comp=%s plain=%d\n" id (if iso then 1 else 0)
             (show csi) (show (canon csi)) comp (if plain then 1 else 0))
      | [""] | [] -> ()
      | _ -> failwith ("bad line: " ^ line)
    done
  with End_of_file -> ()
