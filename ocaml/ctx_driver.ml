(* line-protocol driver around the extracted models of coq/Ctx (module Ctx).
   ctx resize old|fixed : one operation per line
        new | setpoly <d> <z> m|s|f|c | algo u|s | goal i|a|c | solve | solve_async | get_roots | bad | abort
        | free_poly | free          (anything else: echoed as "skip")
      -> ok=<0|1> ctx= init= n= deg= zr= err= exitreq= sec= leaked= pools= have_poly= alloc=<sizes of the 12 arrays>
   ctx api old|fixed : the widened operation set (Ctx/ApiModel.v), one operation per line
        new | free | setpoly <d> <z> m|s|f|c | setdeg <n> | algo u|s | goal i|a|c | prec <p> | format <f> | startphase <0..3>
        | jacobi <0|1> | crude <0|1> | avoidmp <0|1> | solve <over> <phase> <err> | solve_async <over> <phase> <err>
        | get_roots | bad | abort | free_poly        (solve arguments: the outcome of the numerical part)
      -> the fields of "resize" plus over= phase= oprec= fmt= sph= jac= crude= avoid= algo= goal=
   ctx error old|fixed : one call per line, tab separated:  fmt-pieces...   where a piece is L<text> or A,
        then a field "|" then the argument texts, then "|" then junk texts
      -> flag=<0|1> msg=<text or NONE> intended=<text>
   ctx async : one line "<err 0|1> <has_cb 0|1>" -> event list *)
open Ctx

let rec pos_of_int n = if n = 1 then XH else if n land 1 = 1 then XI (pos_of_int (n lsr 1)) else XO (pos_of_int (n lsr 1))
let z_of_int n = if n = 0 then Z0 else if n > 0 then Zpos (pos_of_int n) else Zneg (pos_of_int (-n))
let rec int_of_pos = function XH -> 1 | XO p -> 2 * int_of_pos p | XI p -> 2 * int_of_pos p + 1
let int_of_z = function Z0 -> 0 | Zpos p -> int_of_pos p | Zneg p -> - (int_of_pos p)
let rec nat_of_int n = if n <= 0 then O else S (nat_of_int (n - 1))
let b2i b = if b then 1 else 0

let resize v =
  let s = ref empty_state and okall = ref true in
  (try
     while true do
       let line = input_line stdin in
       let w = List.filter (fun x -> x <> "") (String.split_on_char ' ' (String.trim line)) in
       let o = match w with
         | ["new"] -> Some ONew
         | ["setpoly"; d; z; k] ->
           Some (OSetPoly (z_of_int (int_of_string d), z_of_int (int_of_string z),
                           (match k with "s" -> KSecular | "f" -> KFileMonomial | "c" -> KChebyshev | _ -> KMonomial)))
         | ["algo"; a] -> Some (OAlgo (if a = "s" then AlgoS else AlgoU))
         | ["goal"; g] -> Some (OGoal (match g with "a" -> GoalApprox | "c" -> GoalCount | _ -> GoalIsolate))
         | ["solve"] -> Some OSolve
         | ["solve_async"] -> Some OSolveAsync
         | ["get_roots"] -> Some OGetRoots
         | ["bad"] -> Some OBad
         | ["abort"] -> Some OAbort
         | ["free_poly"] -> Some OFreePoly
         | ["free"] -> Some OFree
         | _ -> None in
       (match o with
        | None -> print_string "skip "
        | Some o -> let (s1, ok) = step v !s o in s := s1; okall := !okall && ok;
          Printf.printf "ok=%d " (b2i ok));
       let st = !s in
       Printf.printf "ctx=%d init=%d n=%d deg=%d zr=%d err=%d exitreq=%d sec=%d leaked=%d pools=%d have_poly=%d alloc=%s\n"
         (b2i st.ctx) (b2i st.init) (int_of_z st.n) (int_of_z st.deg) (int_of_z st.zr) (b2i st.err) (b2i st.exitreq)
         (match st.sec with None -> -1 | Some z -> int_of_z z) (b2i st.leaked) (int_of_z st.pools) (b2i st.have_poly)
         (String.concat "," (List.map (fun a -> string_of_int (int_of_z (st.alloc a))) all_arrs))
     done
   with End_of_file -> ());
  Printf.printf "end ok=%d\n" (b2i !okall)

let api v =
  let w = ref wempty and okall = ref true in
  let ph k = match k with 1 -> FloatPhase | 2 -> DpePhase | 3 -> MpPhase | _ -> NoPhase in
  let iph = function NoPhase -> 0 | FloatPhase -> 1 | DpePhase -> 2 | MpPhase -> 3 in
  let bo x = int_of_string x <> 0 in
  let oc a b c = { o_over = bo a; o_phase = ph (int_of_string b); o_err = bo c } in
  (try
     while true do
       let line = input_line stdin in
       let ws = List.filter (fun x -> x <> "") (String.split_on_char ' ' (String.trim line)) in
       let o = match ws with
         | ["new"] -> Some WNew
         | ["free"] -> Some WFree
         | ["setpoly"; d; z; k] ->
           Some (WSetPoly (z_of_int (int_of_string d), z_of_int (int_of_string z),
                           (match k with "s" -> KSecular | "f" -> KFileMonomial | "c" -> KChebyshev | _ -> KMonomial)))
         | ["setdeg"; n] -> Some (WSetDegree (z_of_int (int_of_string n)))
         | ["algo"; a] -> Some (WAlgo (if a = "s" then AlgoS else AlgoU))
         | ["goal"; g] -> Some (WGoal (match g with "a" -> GoalApprox | "c" -> GoalCount | _ -> GoalIsolate))
         | ["prec"; p] -> Some (WPrec (z_of_int (int_of_string p)))
         | ["format"; f] -> Some (WFormat (z_of_int (int_of_string f)))
         | ["startphase"; k] -> Some (WStartPhase (ph (int_of_string k)))
         | ["jacobi"; x] -> Some (WJacobi (bo x))
         | ["crude"; x] -> Some (WCrude (bo x))
         | ["avoidmp"; x] -> Some (WAvoidMp (bo x))
         | ["solve"; a; b; c] -> Some (WSolve (oc a b c))
         | ["solve_async"; a; b; c] -> Some (WSolveAsync (oc a b c))
         | ["get_roots"] -> Some WGetRoots
         | ["bad"] -> Some WBad
         | ["abort"] -> Some WAbort
         | ["free_poly"] -> Some WFreePoly
         | _ -> None in
       (match o with
        | None -> print_string "skip "
        | Some o -> let (w1, ok) = wstep v !w o in w := w1; okall := !okall && ok;
          Printf.printf "ok=%d " (b2i ok));
       let wt = !w in let st = wt.b in
       Printf.printf "ctx=%d init=%d n=%d deg=%d zr=%d err=%d exitreq=%d sec=%d leaked=%d pools=%d have_poly=%d alloc=%s"
         (b2i st.ctx) (b2i st.init) (int_of_z st.n) (int_of_z st.deg) (int_of_z st.zr) (b2i st.err) (b2i st.exitreq)
         (match st.sec with None -> -1 | Some z -> int_of_z z) (b2i st.leaked) (int_of_z st.pools) (b2i st.have_poly)
         (String.concat "," (List.map (fun a -> string_of_int (int_of_z (st.alloc a))) all_arrs));
       Printf.printf " over=%d phase=%d oprec=%d fmt=%d sph=%d jac=%d crude=%d avoid=%d algo=%d goal=%d\n"
         (b2i wt.over) (iph wt.lphase) (int_of_z wt.oprec) (int_of_z wt.ofmt) (iph wt.sphase) (b2i wt.jac) (b2i wt.crude)
         (b2i wt.avoidmp) (match st.alg with AlgoS -> 1 | AlgoU -> 0)
         (match st.gl with GoalIsolate -> 0 | GoalApprox -> 1 | GoalCount -> 2)
     done
   with End_of_file -> ());
  Printf.printf "end ok=%d\n" (b2i !okall)

let errors v =
  try
    while true do
      let line = input_line stdin in
      let fields = String.split_on_char '\t' line in
      let rec split acc = function
        | "|" :: r -> (List.rev acc, r)
        | x :: r -> split (x :: acc) r
        | [] -> (List.rev acc, []) in
      let (fmt, r) = split [] fields in
      let (args, junk) = split [] r in
      let fmt = List.map (fun p -> if p = "A" then Arg else Lit (String.sub p 1 (String.length p - 1))) fmt in
      let e = mps_error v (nat_of_int 6) { error_state = false; last_error = None } fmt args junk in
      Printf.printf "flag=%d msg=%s\tintended=%s\n" (b2i e.error_state)
        (match e.last_error with None -> "NONE" | Some t -> t) (intended fmt args)
    done
  with End_of_file -> ()

let async () =
  try
    while true do
      let line = input_line stdin in
      Scanf.sscanf line "%d %d" (fun e c ->
          let t = mpsolve_async (e <> 0) (c <> 0) in
          print_endline (String.concat " " (List.map (function EvSolveBegin -> "solve_begin" | EvSolveEnd -> "solve_end"
                                                               | EvCallback -> "callback") t)))
    done
  with End_of_file -> ()

let () =
  match Array.to_list Sys.argv with
  | [_; "resize"; "old"] -> resize Old
  | [_; "resize"; "fixed"] -> resize Fixed
  | [_; "api"; "old"] -> api Old
  | [_; "api"; "fixed"] -> api Fixed
  | [_; "error"; "old"] -> errors Old0
  | [_; "error"; "fixed"] -> errors Fixed0
  | [_; "async"] -> async ()
  | _ -> prerr_endline "usage: ctx resize|api|error old|fixed | async"; exit 2
