(* line-protocol driver around the extracted models of coq/Ctx (module Ctx).
   ctx resize old|fixed : one operation per line
        new | setpoly <d> <z> m|s|f | algo u|s | goal i|a|c | solve | solve_async | get_roots | bad | abort
        | free_poly | free          (anything else: echoed as "skip")
      -> ok=<0|1> ctx= init= n= deg= zr= err= exitreq= sec= leaked= pools= have_poly= alloc=<sizes of the 12 arrays>
   ctx error old|fixed : one call per line, tab separated:  fmt-pieces...   where a piece is L<text> or A,
        then a field "|" then the argument texts, then "|" then junk texts
      -> flag=<0|1> msg=<text or NONE> intended=<text>
   ctx async : one line "<err 0|1> <has_cb 0|1>" -> event list *)
open Ctx

let rec pos_of_int n = if n = 1 then XH else if n land 1 = 1 then XI (pos_of_int (n lsr 1)) else XO (pos_of_int (n lsr 1))
let z_of_int n = if n = 0 then Z0 else if n > 0 then Zpos (pos_of_int n) else Zneg (pos_of_int (-n))
let rec int_of_pos = function XH -> 1 | XO p -> 2 * int_of_pos p | XI p -> 2 * int_of_pos p + 1
let int_of_z = function Z0 -> 0 | Zpos p -> int_of_pos p | Zneg p -> - (int_of_pos p)
let rec nat_of_int n = if n <= 0 then O else S (nat_of_int (n - 1))
let b2i b = if b then 1 else 0

let resize v =
  let s = ref empty_state and okall = ref true in
  (try
     while true do
       let line = input_line stdin in
       let w = List.filter (fun x -> x <> "") (String.split_on_char ' ' (String.trim line)) in
       let o = match w with
         | ["new"] -> Some ONew
         | ["setpoly"; d; z; k] ->
           Some (OSetPoly (z_of_int (int_of_string d), z_of_int (int_of_string z),
                           (match k with "s" -> KSecular | "f" -> KFileMonomial | _ -> KMonomial)))
         | ["algo"; a] -> Some (OAlgo (if a = "s" then AlgoS else AlgoU))
         | ["goal"; g] -> Some (OGoal (match g with "a" -> GoalApprox | "c" -> GoalCount | _ -> GoalIsolate))
         | ["solve"] -> Some OSolve
         | ["solve_async"] -> Some OSolveAsync
         | ["get_roots"] -> Some OGetRoots
         | ["bad"] -> Some OBad
         | ["abort"] -> Some OAbort
         | ["free_poly"] -> Some OFreePoly
         | ["free"] -> Some OFree
         | _ -> None in
       (match o with
        | None -> print_string "skip "
        | Some o -> let (s1, ok) = step v !s o in s := s1; okall := !okall && ok;
          Printf.printf "ok=%d " (b2i ok));
       let st = !s in
       Printf.printf "ctx=%d init=%d n=%d deg=%d zr=%d err=%d exitreq=%d sec=%d leaked=%d pools=%d have_poly=%d alloc=%s\n"
         (b2i st.ctx) (b2i st.init) (int_of_z st.n) (int_of_z st.deg) (int_of_z st.zr) (b2i st.err) (b2i st.exitreq)
         (match st.sec with None -> -1 | Some z -> int_of_z z) (b2i st.leaked) (int_of_z st.pools) (b2i st.have_poly)
         (String.concat "," (List.map (fun a -> string_of_int (int_of_z (st.alloc a))) all_arrs))
     done
   with End_of_file -> ());
  Printf.printf "end ok=%d\n" (b2i !okall)

let errors v =
  try
    while true do
      let line = input_line stdin in
      let fields = String.split_on_char '\t' line in
      let rec split acc = function
        | "|" :: r -> (List.rev acc, r)
        | x :: r -> split (x :: acc) r
        | [] -> (List.rev acc, []) in
      let (fmt, r) = split [] fields in
      let (args, junk) = split [] r in
      let fmt = List.map (fun p -> if p = "A" then Arg else Lit (String.sub p 1 (String.length p - 1))) fmt in
      let e = mps_error v (nat_of_int 6) { error_state = false; last_error = None } fmt args junk in
      Printf.printf "flag=%d msg=%s\tintended=%s\n" (b2i e.error_state)
        (match e.last_error with None -> "NONE" | Some t -> t) (intended fmt args)
    done
  with End_of_file -> ()

let async () =
  try
    while true do
      let line = input_line stdin in
      Scanf.sscanf line "%d %d" (fun e c ->
          let t = mpsolve_async (e <> 0) (c <> 0) in
          print_endline (String.concat " " (List.map (function EvSolveBegin -> "solve_begin" | EvSolveEnd -> "solve_end"
                                                               | EvCallback -> "callback") t)))
    done
  with End_of_file -> ()

let () =
  match Array.to_list Sys.argv with
  | [_; "resize"; "old"] -> resize Old
  | [_; "resize"; "fixed"] -> resize Fixed
  | [_; "error"; "old"] -> errors Old0
  | [_; "error"; "fixed"] -> errors Fixed0
  | [_; "async"] -> async ()
  | _ -> prerr_endline "usage: ctx resize|error old|fixed | async"; exit 2
