(* C16 -- line-protocol driver around the extracted as-coded accessor model (module Access, from Access/AccessCoded.v).
   stdin : id ph dpm restore pc mpwp  fre fim frad  dre_m dre_e dim_m dim_e  drad_m drad_e
              mprec re_man re_exp im_man im_exp  wp status attrs incl again
           ph = f|d|m; doubles as 16 hex digits (IEEE bits); mpf mantissas as signed hex integers, exponents (of the
           lowest limb, in limbs) decimal.
   stdout: id S=.. D=.. M0=.. M1=.. A=.. GA=.. GR=.. C=.. XD=.. XA=..    (same tokens as harness/c16_access.c prints)
   zarith is used for hex/decimal I/O only. *)
module BZ = Z
open Access

let rec pos_of_zarith (x : BZ.t) : positive =
  if BZ.equal x BZ.one then XH
  else if BZ.testbit x 0 then XI (pos_of_zarith (BZ.shift_right x 1)) else XO (pos_of_zarith (BZ.shift_right x 1))
let z_of_zarith (v : BZ.t) : z =
  if BZ.sign v = 0 then Z0 else if BZ.sign v > 0 then Zpos (pos_of_zarith v) else Zneg (pos_of_zarith (BZ.neg v))
let rec zarith_of_pos = function
  | XH -> BZ.one
  | XO p -> BZ.shift_left (zarith_of_pos p) 1
  | XI p -> BZ.succ (BZ.shift_left (zarith_of_pos p) 1)
let zarith_of_z = function Z0 -> BZ.zero | Zpos p -> zarith_of_pos p | Zneg p -> BZ.neg (zarith_of_pos p)
let dec_in s = z_of_zarith (BZ.of_string s)
let hex_in s = z_of_zarith (BZ.of_string_base 16 s)
let dbl_in s = of_bits (hex_in s)
let dbl_out (x : b64) = BZ.format "%016x" (zarith_of_z (to_bits x))
let dec_out (v : z) = BZ.to_string (zarith_of_z v)

let two64 = BZ.shift_left BZ.one 64
let mpf_out (f : mpf) =
  let m = ref (zarith_of_z f.mp_man) and e = ref (zarith_of_z f.mp_exp) in
  if BZ.sign !m = 0 then Printf.sprintf "%s:0:0" (dec_out f.mp_prec)
  else begin
    while BZ.sign (BZ.erem !m two64) = 0 do m := BZ.div !m two64; e := BZ.succ !e done;
    Printf.sprintf "%s:%s:%s" (dec_out f.mp_prec) (BZ.format "%x" !m) (BZ.to_string !e)
  end
let mpc_out ((r, i) : mpc) = mpf_out r ^ "," ^ mpf_out i
let rdpe_out ((m, e) : rdpe) = dbl_out m ^ ":" ^ dec_out e
let approx_out (a : approx) (mv : mpc) =
  let (fr, fi) = a.a_fvalue and (dr, di) = a.a_dvalue in
  Printf.sprintf "%s,%s;%s,%s;%s;%s;%s;%s;%s;%s;%s;%d" (dbl_out fr) (dbl_out fi) (rdpe_out dr) (rdpe_out di) (mpc_out mv)
    (dbl_out a.a_frad) (rdpe_out a.a_drad) (dec_out a.a_wp) (dec_out a.a_status) (dec_out a.a_attrs) (dec_out a.a_incl)
    (if a.a_again then 1 else 0)

let () =
  try
    while true do
      let line = input_line stdin in
      match List.filter (fun x -> x <> "") (String.split_on_char ' ' (String.trim line)) with
      | [id; ph; dpm; restore; pc; mpwp; fre; fim; frad; drem; dree; dimm; dime; dradm; drade;
         mprec; rem; ree; imm; ime; wp; status; attrs; incl; again] ->
        (try
          let ph = (match ph with "f" -> PhFloat | "d" -> PhDpe | _ -> PhMp) in
          let p = bits_to_prec (fix_prec (dec_in mprec)) in
          let a = { a_fvalue = (dbl_in fre, dbl_in fim);
                    a_dvalue = ((dbl_in drem, dec_in dree), (dbl_in dimm, dec_in dime));
                    a_mvalue = ({ mp_prec = p; mp_man = hex_in rem; mp_exp = dec_in ree },
                                { mp_prec = p; mp_man = hex_in imm; mp_exp = dec_in ime });
                    a_frad = dbl_in frad; a_drad = (dbl_in dradm, dec_in drade);
                    a_wp = dec_in wp; a_status = dec_in status; a_attrs = dec_in attrs; a_incl = dec_in incl;
                    a_again = (again = "1") } in
          let o = run_case ph (dec_in dpm) (restore = "1") (dec_in pc) (dec_in mpwp) a in
          let ((dr, di), drad) = o.o_d in
          Printf.printf "%s S=%s D=%s,%s;%s M0=%s;%s M1=%s;%s A=%s GA=%s GR=%s C=%s XD=%s XA=%s\n" id
            (approx_out o.o_stored o.o_stored.a_mvalue)
            (dbl_out dr) (dbl_out di) (dbl_out drad)
            (mpc_out (fst o.o_m0)) (rdpe_out (snd o.o_m0)) (mpc_out (fst o.o_m1)) (rdpe_out (snd o.o_m1))
            (approx_out o.o_a o.o_a.a_mvalue) (approx_out o.o_a o.o_ga) (approx_out o.o_stored o.o_gr)
            (approx_out o.o_c o.o_c.a_mvalue) (dbl_out (cplx_mod (dr, di))) (dbl_out (cplx_mod o.o_a.a_fvalue))
        with e -> Printf.printf "%s ERROR %s\n" id (Printexc.to_string e))
      | [] -> ()
      | id :: _ -> Printf.printf "%s ERROR bad line\n" id
    done
  with End_of_file -> ()
