(* worker_driver.ml -- C05 trace validator (hand written; the model is the extracted module Worker).
   stdin: output of harness/c05_solve (blocks "# result"/"# result-end" are skipped, blocks
   "# run ..." / trace lines / "# end" are validated).  For every run:
     - mutex ids are resolved to (class, index) through the `name` events;
     - lock edges "class A held while acquiring class B" and same-class nestings are collected;
     - every iteration packet (ev pk_begin ... ev pk_end) is replayed through Worker.step: every
       lock/unlock of the job queue, a root mutex, an Aberth mutex, the global Aberth mutex and gs_mutex
       by a worker must be enabled in the model; `again` flags read by the harness under the root lock
       must be the model's; at the end of the packet no worker is active and the flags agree.
   stdout: one line per run   RUN seq=.. status=.. what=.. mode=.. seed=.. events=.. packets=.. fetches=.. labels=.. model=ok|<reason> xunlock=..
           BAD seq=.. kind=.. line=.. event="..." detail=".." for each rejection
           EDGES a>b ...    SAME c:i:j ...    SUMMARY runs=.. ok=.. rejected=.. events=.. labels=.. packets=.. fetches=.. maxfetch=..
   `worker --acyclic a>b,c>d` prints the verdict of the extracted acyclicity test. *)
open Worker

let rec nat_of_int n = if n <= 0 then O else S (nat_of_int (n - 1))
let rec int_of_nat = function O -> 0 | S n -> 1 + int_of_nat n

exception Reject of string * string   (* kind, detail *)

type packet = {
  mutable st : wstate; prm : params; pn : int; pooln : int;
  wmap : (int, int) Hashtbl.t;          (* tid -> active worker index *)
  mutable next_w : int; mutable fetches : int; mutable labels : int; mutable virt : bool;
}

let edges : (string * string, unit) Hashtbl.t = Hashtbl.create 64
let same : (string * int * int, unit) Hashtbl.t = Hashtbl.create 64
let tot_runs = ref 0 and tot_ok = ref 0 and tot_rej = ref 0 and tot_events = ref 0 and tot_labels = ref 0
let tot_packets = ref 0 and tot_fetches = ref 0 and max_fetch = ref 0 and tot_xunlock = ref 0
let lock_hist : (string, int) Hashtbl.t = Hashtbl.create 32

let split_name s =
  match String.rindex_opt s '.' with
  | Some i -> (String.sub s 0 i, (try int_of_string (String.sub s (i + 1) (String.length s - i - 1)) with _ -> 0))
  | None -> (s, 0)

let feed pk l =
  match step pk.prm pk.st l with
  | Some s' -> pk.st <- s'; pk.labels <- pk.labels + 1
  | None -> raise (Reject ("model-reject", "label not enabled"))

let pc_of pk w = pk.st.w_pc (nat_of_int w)
let tag pk w = int_of_nat (pc_tag (pc_of pk w))

(* a worker that fetched a job and goes on without having locked the root: legitimate only in the
   d/m variants when the pool has a single thread (the code skips every lock then) *)
let vheld : (int, nat) Hashtbl.t = Hashtbl.create 8   (* worker -> root it holds virtually *)
(* pool of one thread, d/m variants: the code skips roots_mutex (and the worker's own Aberth mutex); the
   driver brackets the iteration with a virtual LLockR ... LUnlockR so that the model still sees it *)
let virtual_open pk w =
  if tag pk w = 5 && pk.pooln <= 1 then
    (match pc_root (pc_of pk w) with
     | Some i -> pk.virt <- true; feed pk (LLockR (nat_of_int w, i)); Hashtbl.replace vheld w i
     | None -> ())
let virtual_close pk w =
  match Hashtbl.find_opt vheld w with
  | Some i -> Hashtbl.remove vheld w; if tag pk w = 6 then feed pk (LUnlockR (nat_of_int w, i))
  | None -> ()
let virtual_root pk w =
  virtual_close pk w;
  if tag pk w = 5 then begin
    if pk.pooln <= 1 then (virtual_open pk w; virtual_close pk w)
    else raise (Reject ("model-reject", "worker fetched a job and did not lock its root although the pool has several threads"))
  end

let process_run hdr (lines : string array) =
  incr tot_runs;
  let kv = Hashtbl.create 16 in
  let toks = Array.of_list (String.split_on_char ' ' hdr) in
  let i = ref 2 in
  if Array.length toks > 2 then Hashtbl.replace kv "seq" toks.(2);
  i := 3;
  while !i + 1 < Array.length toks do Hashtbl.replace kv toks.(!i) toks.(!i + 1); i := !i + 2 done;
  let g k = try Hashtbl.find kv k with Not_found -> "-" in
  (* pass 1: names *)
  let names : (string, string * int) Hashtbl.t = Hashtbl.create 256 in
  Array.iter (fun ln ->
      match String.split_on_char ' ' ln with
      | [_; "name"; m; c] -> Hashtbl.replace names m (split_name c)
      | _ -> ()) lines;
  let cls_of m = try Hashtbl.find names m with Not_found -> ("unnamed", 0) in
  let held : (int, (string * int) list) Hashtbl.t = Hashtbl.create 32 in
  let get_held t = try Hashtbl.find held t with Not_found -> [] in
  let acquire t (c, ix) =
    List.iter (fun (hc, hi) ->
        if hc = c then Hashtbl.replace same (c, hi, ix) () else Hashtbl.replace edges (hc, c) ()) (get_held t);
    Hashtbl.replace held t ((c, ix) :: get_held t);
    Hashtbl.replace lock_hist c (1 + (try Hashtbl.find lock_hist c with Not_found -> 0)) in
  let release t (c, ix) =
    let rec rm = function [] -> [] | x :: r -> if x = (c, ix) then r else x :: rm r in
    Hashtbl.replace held t (rm (get_held t)) in
  let cur : packet option ref = ref None in
  (* packet header being assembled *)
  let h_n = ref 0 and h_maxit = ref 0 and h_pooln = ref 0 and h_tasks = ref 0 in
  let h_cl : int list list ref = ref [] and h_ag : (int, bool) Hashtbl.t = Hashtbl.create 16 in
  let h_agend : (int, bool) Hashtbl.t = Hashtbl.create 16 in
  let packets = ref 0 and fetches = ref 0 and labels = ref 0 and xunlock = ref 0 in
  let verdict = ref "ok" in
  let nline = ref 0 in
  let worker_of pk t = try Some (Hashtbl.find pk.wmap t) with Not_found -> None in
  let end_worker pk t =
    match worker_of pk t with
    | Some w -> if pk.pooln <= 1 then virtual_root pk w; feed pk (LRet (nat_of_int w)); Hashtbl.remove pk.wmap t
    | None -> () in
  (try
     Array.iter (fun ln ->
         incr nline;
         let f = String.split_on_char ' ' ln in
         (try
            match f with
            | [ts; "ev"; tagname; a] ->
              let t = int_of_string ts and a = int_of_string a in
              (match tagname with
               | "xunlock" -> incr xunlock
               | "pk_begin" -> h_n := a; h_cl := []; Hashtbl.reset h_ag; Hashtbl.reset h_agend
               | "pk_maxit" -> h_maxit := a
               | "pk_pooln" -> h_pooln := a
               | "pk_tasks" -> h_tasks := a
               | "pk_cl" -> h_cl := [] :: !h_cl
               | "pk_r" -> (match !h_cl with c :: r -> h_cl := (a :: c) :: r | [] -> ())
               | "pk_ag" -> Hashtbl.replace h_ag (a / 2) (a land 1 = 1)
               | "pk_go" ->
                 if !cur <> None then raise (Reject ("model-reject", "a packet starts while another one is open"));
                 let cl = List.rev_map (fun c -> List.rev_map nat_of_int c) !h_cl in
                 let prm = { p_k = nat_of_int !h_tasks; p_max_it = nat_of_int !h_maxit; p_cl = cl; p_B = nat_of_int (2 * !h_n + 6) } in
                 let ag = Hashtbl.copy h_ag in
                 let again0 = fun i -> (try Hashtbl.find ag (int_of_nat i) with Not_found -> false) in
                 let nz0 = Hashtbl.fold (fun _ b acc -> if b then acc else acc + 1) ag 0 in
                 Hashtbl.reset vheld;
                 cur := Some { st = w_init prm again0 (nat_of_int nz0); prm; pn = !h_n; pooln = !h_pooln;
                               wmap = Hashtbl.create 16; next_w = 0; fetches = 0; labels = 0; virt = false };
                 incr packets
               | "pk_agend" -> Hashtbl.replace h_agend (a / 2) (a land 1 = 1)
               | "pk_end" ->
                 (match !cur with
                  | Some pk ->
                    if Hashtbl.length pk.wmap > 0 then raise (Reject ("model-reject", "a worker is still active when the packet's queue is freed"));
                    for w = 0 to pk.next_w - 1 do
                      let tg = tag pk w in
                      if tg <> 1 then raise (Reject ("model-reject", Printf.sprintf "worker %d not returned at packet end (pc tag %d)" w tg))
                    done;
                    if not pk.virt then Hashtbl.iter (fun i b ->
                        if pk.st.w_again (nat_of_int i) <> b then
                          raise (Reject ("again-written-without-owner", Printf.sprintf "root %d: flag at packet end is %b, the model (writes under roots_mutex only) has %b" i b (not b)))) h_agend;
                    fetches := !fetches + pk.fetches; labels := !labels + pk.labels;
                    if pk.fetches > !max_fetch then max_fetch := pk.fetches;
                    let bound = pk.pn * (!h_maxit + 1) + !h_tasks in
                    if pk.fetches > bound then raise (Reject ("fetch-bound", Printf.sprintf "%d fetches > n*(max_it+1)+k = %d" pk.fetches bound));
                    cur := None
                  | None -> ())
               | "again_l" ->
                 (match !cur with
                  | Some pk -> (match worker_of pk t with
                      | Some _ ->
                        let i = a / 2 and b = (a land 1 = 1) in
                        if pk.st.w_again (nat_of_int i) <> b then
                          raise (Reject ("again-written-without-owner", Printf.sprintf "root %d: flag read under the root lock is %b, model has %b" i b (not b)))
                      | None -> ())
                  | None -> ())
               | "again_u" ->
                 (match !cur with
                  | Some pk -> (match worker_of pk t with
                      | Some w ->
                        let i = a / 2 and b = (a land 1 = 1) in
                        let m = pk.st.w_again (nat_of_int i) in
                        if m && not b then begin
                          feed pk (LFlip (nat_of_int w)); feed pk (LRead (nat_of_int w)); feed pk (LWrite (nat_of_int w)) end
                        else if (not m) && b then raise (Reject ("model-reject", Printf.sprintf "again[%d] set back to true inside a packet" i))
                      | None -> ())
                  | None -> ())
               | _ -> ())
            | ts :: op :: m :: rest when op = "lock" || op = "unlock" || op = "trylock" || op = "cwait" || op = "cwake" ->
              let t = int_of_string ts in
              let m = if op = "cwait" || op = "cwake" then (match rest with mm :: _ -> mm | [] -> m) else m in
              let (c, ix) = cls_of m in
              let acq = (op = "lock") || (op = "cwake") || (op = "trylock" && rest = ["0"]) in
              let rel = (op = "unlock") || (op = "cwait") in
              (* model first (an acquisition is judged in the state before it) *)
              (match !cur with
               | Some pk ->
                 let is_pool = String.length c >= 5 && String.sub c 0 5 = "pool." in
                 if is_pool && acq then end_worker pk t
                 else begin
                   let w_opt = worker_of pk t in
                   let lab w =
                     let wn = nat_of_int w in
                     match c, op with
                     | "queue", "lock" -> virtual_root pk w; Some (LLockQ wn)
                     | "queue", "unlock" -> pk.fetches <- pk.fetches + 1; Some (LUnlockQ wn)
                     | "root", "lock" -> Some (LLockR (wn, nat_of_int ix))
                     | "root", "unlock" -> Some (LUnlockR (wn, nat_of_int ix))
                     | "aberth", "lock" -> virtual_open pk w; Some (LIn (wn, ALock (nat_of_int ix)))
                     | "aberth", "unlock" -> Some (LIn (wn, AUnlock (nat_of_int ix)))
                     | "gaberth", "lock" -> virtual_open pk w; Some (LIn (wn, GLock))
                     | "gaberth", "unlock" -> Some (LIn (wn, GUnlock))
                     | "gs", "lock" -> Some (LIn (wn, SLock))
                     | "gs", "unlock" -> Some (LIn (wn, SUnlock))
                     | _ -> None in
                   match w_opt with
                   | Some w -> (match lab w with Some l -> feed pk l | None -> ())
                   | None ->
                     if c = "queue" && op = "lock" then begin
                       let w = pk.next_w in
                       pk.next_w <- w + 1; Hashtbl.replace pk.wmap t w;
                       feed pk (LBegin (nat_of_int w)); feed pk (LLockQ (nat_of_int w))
                     end else if c = "root" || c = "aberth" || c = "gaberth" || c = "gs" || c = "queue" then
                       raise (Reject ("model-reject", "worker-protocol lock operation by a thread that runs no worker"))
                 end
               | None ->
                 if c = "root" || c = "aberth" || c = "gaberth" || c = "gs" || c = "queue" then
                   raise (Reject ("model-reject", "worker-protocol lock operation outside any packet")));
              if acq then acquire t (c, ix);
              if rel then release t (c, ix)
            | _ -> ()
          with Failure _ -> ())) lines
   with Reject (kind, detail) ->
     verdict := kind;
     let ev = if !nline >= 1 && !nline <= Array.length lines then lines.(!nline - 1) else "" in
     Printf.printf "BAD seq=%s kind=%s line=%d event=\"%s\" detail=\"%s\" mode=%s seed=%s\n" (g "seq") kind !nline ev detail (g "mode") (g "seed"));
  (* a run the shim stopped (deadlock...) is judged by the check from status; the model verdict is informative then *)
  if !verdict = "ok" then incr tot_ok else incr tot_rej;
  tot_events := !tot_events + Array.length lines; tot_labels := !tot_labels + !labels;
  tot_packets := !tot_packets + !packets; tot_fetches := !tot_fetches + !fetches; tot_xunlock := !tot_xunlock + !xunlock;
  Printf.printf "RUN seq=%s status=%s rc=%s what=%s mode=%s seed=%s nsched=%s events=%d packets=%d fetches=%d labels=%d model=%s xunlock=%d\n"
    (g "seq") (g "status") (g "rc") (g "what") (g "mode") (g "seed") (g "nsched") (Array.length lines) !packets !fetches !labels !verdict !xunlock

let parse_edges s =
  List.filter_map (fun e -> match String.split_on_char '>' e with [a; b] -> Some (a, b) | _ -> None)
    (List.filter (fun x -> x <> "") (String.split_on_char ',' s))

let () =
  if Array.length Sys.argv >= 3 && Sys.argv.(1) = "--acyclic" then begin
    print_endline (if acyclic (parse_edges Sys.argv.(2)) then "acyclic" else "cyclic"); exit 0 end;
  let buf = ref [] and hdr = ref "" and in_run = ref false and in_res = ref false in
  (try
     while true do
       let ln = input_line stdin in
       if !in_res then (if ln = "# result-end" || (String.length ln > 6 && String.sub ln 0 6 = "# run ") then in_res := false);
       if (not !in_res) then begin
         if String.length ln > 9 && String.sub ln 0 9 = "# result " then in_res := true
         else if String.length ln > 6 && String.sub ln 0 6 = "# run " then (hdr := ln; buf := []; in_run := true)
         else if ln = "# end" then (if !in_run then process_run !hdr (Array.of_list (List.rev !buf)); in_run := false)
         else if !in_run && String.length ln > 0 && ln.[0] <> '#' then buf := ln :: !buf
       end
     done
   with End_of_file -> ());
  let el = Hashtbl.fold (fun (a, b) () acc -> (a ^ ">" ^ b) :: acc) edges [] in
  Printf.printf "EDGES %s\n" (String.concat " " (List.sort compare el));
  let sl = Hashtbl.fold (fun (c, i, j) () acc -> Printf.sprintf "%s:%d:%d" c i j :: acc) same [] in
  Printf.printf "SAME %s\n" (String.concat " " (List.sort compare sl));
  let hl = Hashtbl.fold (fun c n acc -> Printf.sprintf "%s:%d" c n :: acc) lock_hist [] in
  Printf.printf "LOCKS %s\n" (String.concat " " (List.sort compare hl));
  Printf.printf "SUMMARY runs=%d ok=%d rejected=%d events=%d labels=%d packets=%d fetches=%d maxfetch=%d xunlock=%d\n"
    !tot_runs !tot_ok !tot_rej !tot_events !tot_labels !tot_packets !tot_fetches !max_fetch !tot_xunlock
