(* worker_driver.ml -- C05 trace validator (hand written; the model is the extracted module Worker).
   stdin: output of harness/c05_solve (blocks "# result"/"# result-end" are skipped, blocks
   "# run ..." / trace lines / "# end" are validated).  For every run:
     - mutex ids are resolved to (class, index) through the `name` events;
     - lock edges "class A held while acquiring class B" and same-class nestings are collected;
     - every iteration packet (ev pk_begin ... ev pk_end) is replayed through Worker.step: every
       lock/unlock of the job queue, a root mutex, an Aberth mutex, the global Aberth mutex and gs_mutex
       by a worker must be enabled in the model; `again` flags read by the harness under the root lock
       must be the model's; at the end of the packet no worker is active and the flags agree.
   stdout: one line per run   RUN seq=.. status=.. what=.. mode=.. seed=.. events=.. packets=.. fetches=.. labels=.. model=ok|<reason> xunlock=..
           BAD seq=.. kind=.. line=.. event="..." detail=".." for each rejection
           EDGES a>b ...    SAME c:i:j ...    SUMMARY runs=.. ok=.. rejected=.. events=.. labels=.. packets=.. fetches=.. maxfetch=..
   `worker --acyclic a>b,c>d` prints the verdict of the extracted acyclicity test. *)
open Worker

let rec nat_of_int n = if n <= 0 then O else S (nat_of_int (n - 1))
let rec int_of_nat = function O -> 0 | S n -> 1 + int_of_nat n

exception Reject of string * string   (* kind, detail *)

type packet = {
  mutable st : wstate; prm : params; pn : int; pooln : int;
  wmap : (int, int) Hashtbl.t;          (* tid -> active worker index *)
  mutable next_w : int; mutable fetches : int; mutable labels : int; mutable virt : bool;
}

let edges : (string * string, unit) Hashtbl.t = Hashtbl.create 64
let same : (string * int * int, unit) Hashtbl.t = Hashtbl.create 64
let tot_runs = ref 0 and tot_ok = ref 0 and tot_rej = ref 0 and tot_events = ref 0 and tot_labels = ref 0
let tot_packets = ref 0 and tot_fetches = ref 0 and max_fetch = ref 0 and tot_xunlock = ref 0
let lock_hist : (string, int) Hashtbl.t = Hashtbl.create 32

let split_name s =
  match String.rindex_opt s '.' with
  | Some i -> (String.sub s 0 i, (try int_of_string (String.sub s (i + 1) (String.length s - i - 1)) with _ -> 0))
  | None -> (s, 0)

let feed pk l =
  match step pk.prm pk.st l with
  | Some s' -> pk.st <- s'; pk.labels <- pk.labels + 1
  | None -> raise (Reject ("model-reject", "label not enabled"))

let pc_of pk w = pk.st.w_pc (nat_of_int w)
let tag pk w = int_of_nat (pc_tag (pc_of pk w))

(* a worker that fetched a job and goes on without having locked the root: legitimate only in the
   d/m variants when the pool has a single thread (the code skips every lock then) *)
let vheld : (int, nat) Hashtbl.t = Hashtbl.create 8   (* worker -> root it holds virtually *)
(* pool of one thread, d/m variants: the code skips roots_mutex (and the worker's own Aberth mutex); the
   driver brackets the iteration with a virtual LLockR ... LUnlockR so that the model still sees it *)
let virtual_open pk w =
  if tag pk w = 5 && pk.pooln <= 1 then
    (match pc_root (pc_of pk w) with
     | Some i -> pk.virt <- true; feed pk (LLockR (nat_of_int w, i)); Hashtbl.replace vheld w i
     | None -> ())
let virtual_close pk w =
  match Hashtbl.find_opt vheld w with
  | Some i -> Hashtbl.remove vheld w; if tag pk w = 6 then feed pk (LUnlockR (nat_of_int w, i))
  | None -> ()
let virtual_root pk w =
  virtual_close pk w;
  if tag pk w = 5 then begin
    if pk.pooln <= 1 then (virtual_open pk w; virtual_close pk w)
    else raise (Reject ("model-reject", "worker fetched a job and did not lock its root although the pool has several threads"))
  end

let process_run hdr (lines : string array) =
  incr tot_runs;
  let kv = Hashtbl.create 16 in
  let toks = Array.of_list (String.split_on_char ' ' hdr) in
  let i = ref 2 in
  if Array.length toks > 2 then Hashtbl.replace kv "seq" toks.(2);
  i := 3;
  while !i + 1 < Array.length toks do Hashtbl.replace kv toks.(!i) toks.(!i + 1); i := !i + 2 done;
  let g k = try Hashtbl.find kv k with Not_found -> "-" in
  (* pass 1: names *)
  let names : (string, string * int) Hashtbl.t = Hashtbl.create 256 in
  Array.iter (fun ln ->
      match String.split_on_char ' ' ln with
      | [_; "name"; m; c] -> Hashtbl.replace names m (split_name c)
      | _ -> ()) lines;
  let cls_of m = try Hashtbl.find names m with Not_found -> ("unnamed", 0) in
  let held : (int, (string * int) list) Hashtbl.t = Hashtbl.create 32 in
  let get_held t = try Hashtbl.find held t with Not_found -> [] in
  let acquire t (c, ix) =
    List.iter (fun (hc, hi) ->
        if hc = c then Hashtbl.replace same (c, hi, ix) () else Hashtbl.replace edges (hc, c) ()) (get_held t);
    Hashtbl.replace held t ((c, ix) :: get_held t);
    Hashtbl.replace lock_hist c (1 + (try Hashtbl.find lock_hist c with Not_found -> 0)) in
  let release t (c, ix) =
    let rec rm = function [] -> [] | x :: r -> if x = (c, ix) then r else x :: rm r in
    Hashtbl.replace held t (rm (get_held t)) in
  let cur : packet option ref = ref None in
  (* packet header being assembled *)
  let h_n = ref 0 and h_maxit = ref 0 and h_pooln = ref 0 and h_tasks = ref 0 in
  let h_cl : int list list ref = ref [] and h_ag : (int, bool) Hashtbl.t = Hashtbl.create 16 in
  let h_agend : (int, bool) Hashtbl.t = Hashtbl.create 16 in
  let packets = ref 0 and fetches = ref 0 and labels = ref 0 and xunlock = ref 0 in
  let verdict = ref "ok" in
  let nline = ref 0 in
  let worker_of pk t = try Some (Hashtbl.find pk.wmap t) with Not_found -> None in
  let end_worker pk t =
    match worker_of pk t with
    | Some w -> if pk.pooln <= 1 then virtual_root pk w; feed pk (LRet (nat_of_int w)); Hashtbl.remove pk.wmap t
    | None -> () in
  (try
     Array.iter (fun ln ->
         incr nline;
         let f = String.split_on_char ' ' ln in
         (try
            match f with
            | [ts; "ev"; tagname; a] ->
              let t = int_of_string ts and a = int_of_string a in
              (match tagname with
               | "xunlock" -> incr xunlock
               | "pk_begin" -> h_n := a; h_cl := []; Hashtbl.reset h_ag; Hashtbl.reset h_agend
               | "pk_maxit" -> h_maxit := a
               | "pk_pooln" -> h_pooln := a
               | "pk_tasks" -> h_tasks := a
               | "pk_cl" -> h_cl := [] :: !h_cl
               | "pk_r" -> (match !h_cl with c :: r -> h_cl := (a :: c) :: r | [] -> ())
               | "pk_ag" -> Hashtbl.replace h_ag (a / 2) (a land 1 = 1)
               | "pk_go" ->
                 if !cur <> None then raise (Reject ("model-reject", "a packet starts while another one is open"));
                 let cl = List.rev_map (fun c -> List.rev_map nat_of_int c) !h_cl in
                 let prm = { p_k = nat_of_int !h_tasks; p_max_it = nat_of_int !h_maxit; p_cl = cl; p_B = nat_of_int (2 * !h_n + 6) } in
                 let ag = Hashtbl.copy h_ag in
                 let again0 = fun i -> (try Hashtbl.find ag (int_of_nat i) with Not_found -> false) in
                 let nz0 = Hashtbl.fold (fun _ b acc -> if b then acc else acc + 1) ag 0 in
                 Hashtbl.reset vheld;
                 cur := Some { st = w_init prm again0 (nat_of_int nz0); prm; pn = !h_n; pooln = !h_pooln;
                               wmap = Hashtbl.create 16; next_w = 0; fetches = 0; labels = 0; virt = false };
                 incr packets
               | "pk_agend" -> Hashtbl.replace h_agend (a / 2) (a land 1 = 1)
               | "pk_end" ->
                 (match !cur with
                  | Some pk ->
                    if Hashtbl.length pk.wmap > 0 then raise (Reject ("model-reject", "a worker is still active when the packet's queue is freed"));
                    for w = 0 to pk.next_w - 1 do
                      let tg = tag pk w in
                      if tg <> 1 then raise (Reject ("model-reject", Printf.sprintf "worker %d not returned at packet end (pc tag %d)" w tg))
                    done;
                    if not pk.virt then Hashtbl.iter (fun i b ->
                        if pk.st.w_again (nat_of_int i) <> b then
                          raise (Reject ("again-written-without-owner", Printf.sprintf "root %d: flag at packet end is %b, the model (writes under roots_mutex only) has %b" i b (not b)))) h_agend;
                    fetches := !fetches + pk.fetches; labels := !labels + pk.labels;
                    if pk.fetches > !max_fetch then max_fetch := pk.fetches;
                    let bound = pk.pn * (!h_maxit + 1) + !h_tasks in
                    if pk.fetches > bound then raise (Reject ("fetch-bound", Printf.sprintf "%d fetches > n*(max_it+1)+k = %d" pk.fetches bound));
                    cur := None
                  | None -> ())
               | "again_l" ->
                 (match !cur with
                  | Some pk -> (match worker_of pk t with
                      | Some _ ->
                        let i = a / 2 and b = (a land 1 = 1) in
                        if pk.st.w_again (nat_of_int i) <> b then
                          raise (Reject ("again-written-without-owner", Printf.sprintf "root %d: flag read under the root lock is %b, model has %b" i b (not b)))
                      | None -> ())
                  | None -> ())
               | "again_u" ->
                 (match !cur with
                  | Some pk -> (match worker_of pk t with
                      | Some w ->
                        let i = a / 2 and b = (a land 1 = 1) in
                        let m = pk.st.w_again (nat_of_int i) in
                        if m && not b then begin
                          feed pk (LFlip (nat_of_int w)); feed pk (LRead (nat_of_int w)); feed pk (LWrite (nat_of_int w)) end
                        else if (not m) && b then raise (Reject ("model-reject", Printf.sprintf "again[%d] set back to true inside a packet" i))
                      | None -> ())
                  | None -> ())
               | _ -> ())
            | ts :: op :: m :: rest when op = "lock" || op = "unlock" || op = "trylock" || op = "cwait" || op = "cwake" ->
              let t = int_of_string ts in
              let m = if op = "cwait" || op = "cwake" then (match rest with mm :: _ -> mm | [] -> m) else m in
              let (c, ix) = cls_of m in
              let acq = (op = "lock") || (op = "cwake") || (op = "trylock" && rest = ["0"]) in
              let rel = (op = "unlock") || (op = "cwait") in
              (* model first (an acquisition is judged in the state before it) *)
              (match !cur with
               | Some pk ->
                 let is_pool = String.length c >= 5 && String.sub c 0 5 = "pool." in
                 if is_pool && acq then end_worker pk t
                 else begin
                   let w_opt = worker_of pk t in
                   let lab w =
                     let wn = nat_of_int w in
                     match c, op with
                     | "queue", "lock" -> virtual_root pk w; Some (LLockQ wn)
                     | "queue", "unlock" -> pk.fetches <- pk.fetches + 1; Some (LUnlockQ wn)
                     | "root", "lock" -> Some (LLockR (wn, nat_of_int ix))
                     | "root", "unlock" -> Some (LUnlockR (wn, nat_of_int ix))
                     | "aberth", "lock" -> virtual_open pk w; Some (LIn (wn, ALock (nat_of_int ix)))
                     | "aberth", "unlock" -> Some (LIn (wn, AUnlock (nat_of_int ix)))
                     | "gaberth", "lock" -> virtual_open pk w; Some (LIn (wn, GLock))
                     | "gaberth", "unlock" -> Some (LIn (wn, GUnlock))
                     | "gs", "lock" -> Some (LIn (wn, SLock))
                     | "gs", "unlock" -> Some (LIn (wn, SUnlock))
                     | _ -> None in
                   match w_opt with
                   | Some w -> (match lab w with Some l -> feed pk l | None -> ())
                   | None ->
                     if c = "queue" && op = "lock" then begin
                       let w = pk.next_w in
                       pk.next_w <- w + 1; Hashtbl.replace pk.wmap t w;
                       feed pk (LBegin (nat_of_int w)); feed pk (LLockQ (nat_of_int w))
                     end else if c = "root" || c = "aberth" || c = "gaberth" || c = "gs" || c = "queue" then
                       raise (Reject ("model-reject", "worker-protocol lock operation by a thread that runs no worker"))
                 end
               | None ->
                 if c = "root" || c = "aberth" || c = "gaberth" || c = "gs" || c = "queue" then
                   raise (Reject ("model-reject", "worker-protocol lock operation outside any packet")));
              if acq then acquire t (c, ix);
              if rel then release t (c, ix)
            | _ -> ()
          with Failure _ -> ())) lines
   with Reject (kind, detail) ->
     verdict := kind;
     let ev = if !nline >= 1 && !nline <= Array.length lines then lines.(!nline - 1) else "" in
     Printf.printf "BAD seq=%s kind=%s line=%d event=\"%s\" detail=\"%s\" mode=%s seed=%s\n" (g "seq") kind !nline ev detail (g "mode") (g "seed"));
  (* a run the shim stopped (deadlock...) is judged by the check from status; the model verdict is informative then *)
  if !verdict = "ok" then incr tot_ok else incr tot_rej;
  tot_events := !tot_events + Array.length lines; tot_labels := !tot_labels + !labels;
  tot_packets := !tot_packets + !packets; tot_fetches := !tot_fetches + !fetches; tot_xunlock := !tot_xunlock + !xunlock;
  Printf.printf "RUN seq=%s status=%s rc=%s what=%s mode=%s seed=%s nsched=%s events=%d packets=%d fetches=%d labels=%d model=%s xunlock=%d\n"
    (g "seq") (g "status") (g "rc") (g "what") (g "mode") (g "seed") (g "nsched") (Array.length lines) !packets !fetches !labels !verdict !xunlock


(* ================================================================================================== *)
(* REFINED model replay (Worker.rstep = extracted coq/Conc/WorkerRefined.v), lock by lock.
   Every worker task is bracketed by `ev w_begin <variant>` / `ev w_end` on the executing thread (harness
   trampoline).  The model thread executes
     - a lock / unlock instruction exactly at the trace's lock / unlock event of that thread (it must stand at an
       instruction naming the same mutex, and the model's lock table must allow it);
     - its local instructions (tests, shared reads and writes, nzeros++ ...) at the event that starts the real
       thread's atomic block (lock acquired / cont / w_begin ...) whose next scheduling event is the next
       protocol call: the deterministic tests (excep, nzeros, again, job) are decided by the MODEL's state;
       data-dependent tests and the Newton outcome are searched (depth first) so that the path ends at the
       instruction of the real thread's next call and reproduces the harness's sample `ev st` (nzeros, excep,
       again flag of the job's root) taken just before that call and the job `ev job` it was handed;
     - value hashes `ev vh`: the hash of a root's value fields may change between two observations only if the
       model wrote the value in between.
   At packet end: every task returned, every mutex free in the model, again flags equal. *)
type rev = { e_tid : int; e_op : string; e_cls : string; e_ix : int; e_tag : string; e_a : int; e_sched : bool; e_start : bool }
type rtarget = TRet | TOp of string * string * int | TNone
type rpacket = {
  mutable rs : rstate; rprm : rparams; rvar : int; rn : int; rk : int; rreq : int;
  rmap : (int, int) Hashtbl.t; mutable rnext : int; mutable rsteps : int; mutable since : int;
  lasth : (int, int * int) Hashtbl.t; mutable rops : int }

let nat_cache = Array.make 8192 O
let () = for i = 1 to 8191 do nat_cache.(i) <- S nat_cache.(i - 1) done
let nat_fast n = if n >= 0 && n < 8192 then nat_cache.(n) else nat_of_int n

let rtot_runs = ref 0 and rtot_ok = ref 0 and rtot_rej = ref 0 and rtot_steps = ref 0 and rtot_ops = ref 0 and rtot_tasks = ref 0
let rtot_packets = ref 0 and rtot_samples = ref 0 and rtot_hashes = ref 0 and rtot_search = ref 0
let rvar_hist = Array.make 6 0       (* tasks per variant *)
let rvar_pool1 = Array.make 6 0      (* tasks per variant run with a pool of one thread *)
let rinstr_hist : (string, int) Hashtbl.t = Hashtbl.create 32
let variant_name = [| "F"; "D"; "M"; "SF"; "SD"; "SM" |]
let variant_of_int = function 0 -> VF | 1 -> VD | 2 -> VM | 3 -> VSF | 4 -> VSD | _ -> VSM

let cls_of_lk = function LQ -> ("queue", 0) | LR i -> ("root", int_of_nat i) | LG -> ("gaberth", 0)
                       | LA i -> ("aberth", int_of_nat i) | LS -> ("gs", 0)
let is_protocol c = (c = "root" || c = "aberth" || c = "gaberth" || c = "gs" || c = "queue")
let instr_name = function
  | ILock _ -> "lock" | IUnlock _ -> "unlock" | IFetch -> "fetch" | IBr (CData _, _, _) -> "br-data" | IBr _ -> "br" | IGoto _ -> "goto"
  | ISetExcep -> "set-excep" | ISetAgain _ -> "set-again" | INewton -> "newton" | IWriteVal -> "write-val" | IWriteAux -> "write-aux"
  | IWriteRad -> "write-rad" | IReadVal -> "read-val" | IReadOther -> "read-other" | ILoadNz -> "load-nz" | IStoreNz -> "store-nz"
  | ILoadIt -> "load-it" | IStoreIt -> "store-it" | IKAll | IKCluster | IKNext -> "k" | IRet -> "ret"
let hist_add h k = Hashtbl.replace h k (1 + (try Hashtbl.find h k with Not_found -> 0))

(* re-tabulate the function-valued fields of the model state on the packet's finite domain (extensionally
   equal; keeps look-ups O(1) instead of walking the chain of updates) *)
let compact pk =
  let s = pk.rs in
  let k = pk.rk and n = pk.rn + 1 in
  let tha = Array.init k (fun t -> s.r_th (nat_fast t)) in
  let aga = Array.init n (fun i -> s.r_again (nat_fast i)) in
  let va = Array.init n (fun i -> s.r_valv (nat_fast i)) and aa = Array.init n (fun i -> s.r_auxv (nat_fast i)) in
  let ra = Array.init n (fun i -> s.r_radv (nat_fast i)) in
  let oq = s.r_own LQ and og = s.r_own LG and os = s.r_own LS in
  let orr = Array.init n (fun i -> s.r_own (LR (nat_fast i))) and oa = Array.init n (fun i -> s.r_own (LA (nat_fast i))) in
  let again_far = s.r_again in
  pk.rs <- { s with
    r_th = (fun t -> let j = int_of_nat t in if j < k then tha.(j) else thr0);
    r_again = (fun i -> let j = int_of_nat i in if j < n then aga.(j) else again_far i);
    r_valv = (fun i -> let j = int_of_nat i in if j < n then va.(j) else O);
    r_auxv = (fun i -> let j = int_of_nat i in if j < n then aa.(j) else O);
    r_radv = (fun i -> let j = int_of_nat i in if j < n then ra.(j) else O);
    r_own = (fun l -> match l with
        | LQ -> oq | LG -> og | LS -> os
        | LR i -> let j = int_of_nat i in if j < n then orr.(j) else None
        | LA i -> let j = int_of_nat i in if j < n then oa.(j) else None) };
  pk.since <- 0

let parse_rev names ln =
  let cls_of m = try Hashtbl.find names m with Not_found -> ("unnamed", 0) in
  match String.split_on_char ' ' ln with
  | [ts; "ev"; tg; a] ->
    (try Some { e_tid = int_of_string ts; e_op = "ev"; e_cls = ""; e_ix = 0; e_tag = tg; e_a = int_of_string a; e_sched = false; e_start = false }
     with Failure _ -> None)
  | ts :: op :: rest ->
    (try
       let tid = int_of_string ts in
       let mk c ix sched start = Some { e_tid = tid; e_op = op; e_cls = c; e_ix = ix; e_tag = ""; e_a = 0; e_sched = sched; e_start = start } in
       (match op, rest with
        | ("lock" | "unlock" | "trylock"), m :: _ -> let (c, ix) = cls_of m in mk c ix true (op <> "unlock")
        | ("cwait" | "cwake"), _ :: m :: _ -> let (c, ix) = cls_of m in mk c ix true (op = "cwake")
        | ("begin" | "create" | "join" | "cont" | "signal" | "bcast" | "yield"), _ -> mk "" 0 true true
        | "exit", _ -> mk "" 0 true false
        | _ -> None)
     with Failure _ -> None)
  | _ -> None

let process_run_refined hdr (lines : string array) =
  incr rtot_runs;
  let kv = Hashtbl.create 16 in
  let toks = Array.of_list (String.split_on_char ' ' hdr) in
  if Array.length toks > 2 then Hashtbl.replace kv "seq" toks.(2);
  let i = ref 3 in
  while !i + 1 < Array.length toks do Hashtbl.replace kv toks.(!i) toks.(!i + 1); i := !i + 2 done;
  let g k = try Hashtbl.find kv k with Not_found -> "-" in
  let names : (string, string * int) Hashtbl.t = Hashtbl.create 256 in
  Array.iter (fun ln -> match String.split_on_char ' ' ln with
      | [_; "name"; m; c] -> Hashtbl.replace names m (split_name c) | _ -> ()) lines;
  (* events (with the trace line number) *)
  let evl = ref [] in
  Array.iteri (fun li ln -> match parse_rev names ln with Some e -> evl := (li + 1, e) :: !evl | None -> ()) lines;
  let evs = Array.of_list (List.rev !evl) in
  let n = Array.length evs in
  (* next scheduling event of the same thread *)
  let nxt = Array.make n (-1) in
  let last : (int, int) Hashtbl.t = Hashtbl.create 32 in
  for e = n - 1 downto 0 do
    let (_, ev) = evs.(e) in
    nxt.(e) <- (try Hashtbl.find last ev.e_tid with Not_found -> -1);
    if ev.e_sched then Hashtbl.replace last ev.e_tid e
  done;
  let cur : rpacket option ref = ref None in
  let hdr_ready = ref false in
  let h_n = ref 0 and h_maxit = ref 0 and h_pooln = ref 0 and h_tasks = ref 0 in
  let h_cl : int list list ref = ref [] and h_ag : (int, bool) Hashtbl.t = Hashtbl.create 16 in
  let h_agend : (int, bool) Hashtbl.t = Hashtbl.create 16 in
  let pend : (int * string, int) Hashtbl.t = Hashtbl.create 16 in
  let packets = ref 0 and steps = ref 0 and ops = ref 0 and tasks = ref 0 and samples = ref 0 and hashes = ref 0 in
  let verdict = ref "ok" in
  let cur_line = ref 0 in
  let commit pk st d = pk.rs <- st; pk.rsteps <- pk.rsteps + d; pk.since <- pk.since + d; if pk.since > 256 then compact pk in
  (* the local instructions of task w up to its next call *)
  let run_ahead pk tid w e =
    let ne = nxt.(e) in
    (* observations of this thread between e and its next scheduling event *)
    let obs_st = ref None and obs_job = ref None and obs_vh = ref [] and ended = ref false in
    let stop = if ne < 0 then n else ne in
    for x = e + 1 to stop - 1 do
      let (_, ev) = evs.(x) in
      if ev.e_tid = tid && ev.e_op = "ev" then
        (match ev.e_tag with
         | "st" -> obs_st := Some ev.e_a | "job" -> obs_job := Some ev.e_a
         | "vh" -> obs_vh := (ev.e_a lsr 24, ev.e_a land 0xffffff) :: !obs_vh
         | "w_end" -> ended := true | _ -> ())
    done;
    let target =
      if !ended then TRet
      else if ne < 0 then TNone
      else let (_, nev) = evs.(ne) in
        if (nev.e_op = "lock" || nev.e_op = "unlock") && is_protocol nev.e_cls then TOp (nev.e_op, nev.e_cls, nev.e_ix) else TNone in
    if target <> TNone then begin
      let wn = nat_fast w in
      (match !obs_job with
       | Some code ->
         let th = pk.rs.r_th wn in
         let mi = int_of_nat th.t_i and mit = (match th.t_it with Some x -> int_of_nat x | None -> -1) in
         let ri = if code < 0 then -1 else code land 1023 and rit = if code < 0 then -1 else code lsr 10 in
         if (rit <> mit) || (rit >= 0 && ri <> mi) then
           raise (Reject ("refined-job-mismatch", Printf.sprintf "mps_thread_job_queue_next returned (root %d, iter %d), the model's queue hands out (root %d, iter %d)" ri rit mi mit))
       | None -> ());
      let fkind = ref "refined-model-reject" and fmsg = ref "no path of the program text matches" in
      let vh_ok st =
        List.for_all (fun (j, h) ->
            let ver = int_of_nat (st.r_valv (nat_fast j)) + int_of_nat (st.r_auxv (nat_fast j)) in
            match Hashtbl.find_opt pk.lasth j with
            | Some (h0, v0) when h0 <> h && v0 = ver ->
              fkind := "refined-value-written-outside-model-write";
              fmsg := Printf.sprintf "the value of root %d changed between two observations although no path of the model performs a value write on it there (written outside the critical section the text shows?)" j;
              false
            | _ -> true) !obs_vh in
      let obs_ok st =
        vh_ok st &&
        match !obs_st with
        | None -> true
        | Some a ->
          let th = st.r_th wn in
          let nz = a lsr 3 and has = (a land 4) <> 0 and ex = (a land 2) <> 0 and ag = (a land 1) <> 0 in
          if int_of_nat st.r_nz <> nz then (fkind := "refined-nzeros-mismatch"; fmsg := Printf.sprintf "*nzeros is %d, the model has %d" nz (int_of_nat st.r_nz); false)
          else if st.r_excep <> ex then (fkind := "refined-excep-mismatch"; fmsg := Printf.sprintf "*excep is %b, the model has %b" ex st.r_excep; false)
          else if has && th.t_it <> None && target <> TOp ("unlock", "queue", 0) && st.r_again th.t_i <> ag then
            (* (inside mps_thread_job_queue_next the harness still has the previous job's root) *)
            (fkind := "refined-again-mismatch"; fmsg := Printf.sprintf "root[%d]->again is %b, the model has %b" (int_of_nat th.t_i) ag (not ag); false)
          else true in
      let tstr = (match target with TRet -> "return" | TOp (k, c, ix) -> Printf.sprintf "%s %s.%d" k c ix | TNone -> "-") in
      let rec go st d =
        if d > 800 then (fmsg := "more than 800 local instructions before the next call"; None) else
        match instr_at pk.rprm st wn with
        | None -> fmsg := "the model task is not running"; None
        | Some ins ->
          let at_call kind m =
            let (c, ix) = cls_of_lk (lock_of (st.r_th wn) m) in
            (match target with
             | TOp (k', c', ix') when k' = kind && c' = c && (ix' = ix || not (c = "root" || c = "aberth")) -> if obs_ok st then Some (st, d) else None
             | _ -> if !fkind = "refined-model-reject" then fmsg := Printf.sprintf "the model stands at %s %s.%d, the real thread's next call is %s" kind c ix tstr; None) in
          (match ins with
           | ILock (gd, m) when effective pk.rprm gd -> at_call "lock" m
           | IUnlock (gd, m) when effective pk.rprm gd -> at_call "unlock" m
           | IRet -> (match target with
               | TRet -> if obs_ok st then Some (st, d) else None
               | _ -> if !fkind = "refined-model-reject" then fmsg := Printf.sprintf "the model returns, the real thread's next call is %s" tstr; None)
           | _ ->
             let nondet = (match ins with IBr (CData _, _, _) -> true | INewton -> true | _ -> false) in
             let try_ch ch = (match rstep pk.rprm st wn ch with Some st' -> go st' (d + 1) | None -> fmsg := "local instruction not enabled"; None) in
             (match try_ch false with Some r -> Some r | None -> if nondet then (incr rtot_search; try_ch true) else None)) in
      (match go pk.rs 0 with
       | Some (st, d) -> commit pk st d
       | None -> raise (Reject (!fkind, !fmsg)));
      if !obs_st <> None then incr samples;
      List.iter (fun (j, h) ->
          incr hashes;
          let ver = int_of_nat (pk.rs.r_valv (nat_fast j)) + int_of_nat (pk.rs.r_auxv (nat_fast j)) in
          Hashtbl.replace pk.lasth j (h, ver)) (List.rev !obs_vh)
    end in
  (try
     for e = 0 to n - 1 do
       let (li, ev) = evs.(e) in
       cur_line := li;
       let tid = ev.e_tid in
       if ev.e_op = "ev" then begin
         let a = ev.e_a in
         match ev.e_tag with
         | "pk_begin" -> h_n := a; h_cl := []; Hashtbl.reset h_ag; Hashtbl.reset h_agend; hdr_ready := false
         | "pk_maxit" -> h_maxit := a | "pk_pooln" -> h_pooln := a | "pk_tasks" -> h_tasks := a
         | "pk_cl" -> h_cl := [] :: !h_cl
         | "pk_r" -> (match !h_cl with c :: r -> h_cl := (a :: c) :: r | [] -> ())
         | "pk_ag" -> Hashtbl.replace h_ag (a / 2) (a land 1 = 1)
         | "pk_go" -> if !cur <> None then raise (Reject ("refined-model-reject", "a packet starts while another one is open")); hdr_ready := true
         | "w_req" | "w_nz" | "w_ex" -> Hashtbl.replace pend (tid, ev.e_tag) a
         | "w_begin" when !hdr_ready ->
           let pget k = try Hashtbl.find pend (tid, k) with Not_found -> 0 in
           let pk = (match !cur with
               | Some pk ->
                 if pk.rvar <> a then raise (Reject ("refined-model-reject", "tasks of two different worker bodies in one packet"));
                 if pk.rreq <> pget "w_req" then raise (Reject ("refined-model-reject", "required_zeros differs between the tasks of one packet"));
                 pk
               | None ->
                 let cl = List.rev_map (fun c -> List.rev_map nat_of_int c) !h_cl in
                 let k = max 1 !h_tasks in
                 let prm = mk_params (variant_of_int a) (nat_of_int k) (nat_of_int !h_maxit) cl (nat_of_int (pget "w_req")) (!h_pooln <= 1) in
                 let ag = Hashtbl.copy h_ag in
                 let again0 = fun i -> (try Hashtbl.find ag (int_of_nat i) with Not_found -> false) in
                 let pk = { rs = r_init prm again0 (nat_of_int (pget "w_nz")) (pget "w_ex" <> 0); rprm = prm; rvar = a; rn = !h_n; rk = k; rreq = pget "w_req";
                            rmap = Hashtbl.create 16; rnext = 0; rsteps = 0; since = 0; lasth = Hashtbl.create 16; rops = 0 } in
                 compact pk; cur := Some pk; incr packets; pk) in
           if Hashtbl.mem pk.rmap tid then raise (Reject ("refined-model-reject", "a task begins on a thread that is still running one"));
           if pk.rnext >= pk.rk then raise (Reject ("refined-model-reject", "more tasks than s->n_threads"));
           let w = pk.rnext in
           pk.rnext <- w + 1; Hashtbl.replace pk.rmap tid w; incr tasks;
           rvar_hist.(a) <- rvar_hist.(a) + 1; if !h_pooln <= 1 then rvar_pool1.(a) <- rvar_pool1.(a) + 1;
           (match rstep pk.rprm pk.rs (nat_fast w) false with
            | Some st -> commit pk st 1
            | None -> raise (Reject ("refined-model-reject", "a task begins while another one runs although the pool has one thread")));
           run_ahead pk tid w e
         | "w_end" ->
           (match !cur with
            | Some pk ->
              (match Hashtbl.find_opt pk.rmap tid with
               | Some w ->
                 (match instr_at pk.rprm pk.rs (nat_fast w) with
                  | Some IRet -> (match rstep pk.rprm pk.rs (nat_fast w) false with Some st -> commit pk st 1 | None -> raise (Reject ("refined-model-reject", "return not enabled")))
                  | Some ins -> raise (Reject ("refined-model-reject", "the real task returned, the model task stands at `" ^ instr_name ins ^ "`"))
                  | None -> raise (Reject ("refined-model-reject", "the real task returned, the model task is not running")));
                 Hashtbl.remove pk.rmap tid
               | None -> ())
            | None -> ())
         | "pk_agend" -> Hashtbl.replace h_agend (a / 2) (a land 1 = 1)
         | "pk_end" ->
           hdr_ready := false;
           (match !cur with
            | Some pk ->
              if Hashtbl.length pk.rmap > 0 then raise (Reject ("refined-model-reject", "a task is still running when the packet's queue is freed"));
              let s = pk.rs in
              for w = 0 to pk.rnext - 1 do
                if int_of_nat (stat_tag (s.r_th (nat_fast w))) <> 2 then raise (Reject ("refined-model-reject", Printf.sprintf "task %d has not returned at packet end" w))
              done;
              let free l = (s.r_own l = None) in
              if not (free LQ && free LG && free LS) then raise (Reject ("refined-mutex-held-at-drain", "queue / global Aberth / gs mutex owned in the model at packet end"));
              for i = 0 to pk.rn - 1 do
                if not (free (LR (nat_fast i)) && free (LA (nat_fast i))) then raise (Reject ("refined-mutex-held-at-drain", Printf.sprintf "roots_mutex / aberth_mutex %d owned in the model at packet end" i))
              done;
              Hashtbl.iter (fun i b ->
                  if s.r_again (nat_fast i) <> b then
                    raise (Reject ("refined-again-mismatch", Printf.sprintf "root %d: again at packet end is %b, the model has %b" i b (not b)))) h_agend;
              steps := !steps + pk.rsteps; ops := !ops + pk.rops;
              cur := None
            | None -> ())
         | _ -> ()
       end else begin
         match !cur with
         | None -> ()
         | Some pk ->
           (match Hashtbl.find_opt pk.rmap tid with
            | Some w ->
              let wn = nat_fast w in
              if (ev.e_op = "lock" || ev.e_op = "unlock") && is_protocol ev.e_cls then begin
                (* the model task must stand at the same call *)
                (match instr_at pk.rprm pk.rs wn with
                 | Some ((ILock (gd, m) | IUnlock (gd, m)) as ins) when effective pk.rprm gd ->
                   let kind = (match ins with ILock _ -> "lock" | _ -> "unlock") in
                   let (c, ix) = cls_of_lk (lock_of (pk.rs.r_th wn) m) in
                   if not (kind = ev.e_op && c = ev.e_cls && (ix = ev.e_ix || not (c = "root" || c = "aberth"))) then
                     raise (Reject ("refined-model-reject", Printf.sprintf "the real thread does %s %s.%d, the model task stands at %s %s.%d" ev.e_op ev.e_cls ev.e_ix kind c ix));
                   (match rstep pk.rprm pk.rs wn false with
                    | Some st -> commit pk st 1; pk.rops <- pk.rops + 1; hist_add rinstr_hist (kind ^ ":" ^ c)
                    | None -> raise (Reject ("refined-model-reject", Printf.sprintf "%s %s.%d is not enabled in the model (mutex owned by another task / not owned)" ev.e_op ev.e_cls ev.e_ix)))
                 | Some ins -> raise (Reject ("refined-model-reject", Printf.sprintf "the real thread does %s %s.%d, the model task stands at `%s`" ev.e_op ev.e_cls ev.e_ix (instr_name ins)))
                 | None -> raise (Reject ("refined-model-reject", "call by a task that is not running in the model")));
                if ev.e_op = "lock" then run_ahead pk tid w e
              end else if ev.e_start then run_ahead pk tid w e
            | None ->
              if (ev.e_op = "lock" || ev.e_op = "unlock") && is_protocol ev.e_cls then
                raise (Reject ("refined-model-reject", "worker-protocol call by a thread that runs no worker task")))
       end
     done
   with Reject (kind, detail) ->
     verdict := kind;
     let evtxt = if !cur_line >= 1 && !cur_line <= Array.length lines then lines.(!cur_line - 1) else "" in
     let var = (match !cur with Some pk -> variant_name.(pk.rvar) | None -> "-") in
     Printf.printf "RBAD seq=%s kind=%s line=%d event=\"%s\" detail=\"%s\" variant=%s mode=%s seed=%s\n" (g "seq") kind !cur_line evtxt detail var (g "mode") (g "seed"));
  if !verdict = "ok" then incr rtot_ok else incr rtot_rej;
  rtot_steps := !rtot_steps + !steps; rtot_ops := !rtot_ops + !ops; rtot_tasks := !rtot_tasks + !tasks; rtot_packets := !rtot_packets + !packets;
  rtot_samples := !rtot_samples + !samples; rtot_hashes := !rtot_hashes + !hashes;
  Printf.printf "RRUN seq=%s packets=%d tasks=%d instructions=%d calls=%d samples=%d hashes=%d refined=%s\n" (g "seq") !packets !tasks !steps !ops !samples !hashes !verdict

let parse_edges s =
  List.filter_map (fun e -> match String.split_on_char '>' e with [a; b] -> Some (a, b) | _ -> None)
    (List.filter (fun x -> x <> "") (String.split_on_char ',' s))

let () =
  if Array.length Sys.argv >= 3 && Sys.argv.(1) = "--acyclic" then begin
    print_endline (if acyclic (parse_edges Sys.argv.(2)) then "acyclic" else "cyclic"); exit 0 end;
  let buf = ref [] and hdr = ref "" and in_run = ref false and in_res = ref false in
  (try
     while true do
       let ln = input_line stdin in
       if !in_res then (if ln = "# result-end" || (String.length ln > 6 && String.sub ln 0 6 = "# run ") then in_res := false);
       if (not !in_res) then begin
         if String.length ln > 9 && String.sub ln 0 9 = "# result " then in_res := true
         else if String.length ln > 6 && String.sub ln 0 6 = "# run " then (hdr := ln; buf := []; in_run := true)
         else if ln = "# end" then (if !in_run then (let a = Array.of_list (List.rev !buf) in process_run !hdr a; process_run_refined !hdr a); in_run := false)
         else if !in_run && String.length ln > 0 && ln.[0] <> '#' then buf := ln :: !buf
       end
     done
   with End_of_file -> ());
  let el = Hashtbl.fold (fun (a, b) () acc -> (a ^ ">" ^ b) :: acc) edges [] in
  Printf.printf "EDGES %s\n" (String.concat " " (List.sort compare el));
  let sl = Hashtbl.fold (fun (c, i, j) () acc -> Printf.sprintf "%s:%d:%d" c i j :: acc) same [] in
  Printf.printf "SAME %s\n" (String.concat " " (List.sort compare sl));
  let hl = Hashtbl.fold (fun c n acc -> Printf.sprintf "%s:%d" c n :: acc) lock_hist [] in
  Printf.printf "LOCKS %s\n" (String.concat " " (List.sort compare hl));
  Printf.printf "SUMMARY runs=%d ok=%d rejected=%d events=%d labels=%d packets=%d fetches=%d maxfetch=%d xunlock=%d\n"
    !tot_runs !tot_ok !tot_rej !tot_events !tot_labels !tot_packets !tot_fetches !max_fetch !tot_xunlock;
  Printf.printf "RSUMMARY runs=%d ok=%d rejected=%d packets=%d tasks=%d instructions=%d calls=%d samples=%d hashes=%d backtracks=%d\n"
    !rtot_runs !rtot_ok !rtot_rej !rtot_packets !rtot_tasks !rtot_steps !rtot_ops !rtot_samples !rtot_hashes !rtot_search;
  Printf.printf "RVARIANTS %s\n" (String.concat " " (Array.to_list (Array.mapi (fun i nm -> Printf.sprintf "%s:%d:%d" nm rvar_hist.(i) rvar_pool1.(i)) variant_name)));
  let il = Hashtbl.fold (fun c n acc -> Printf.sprintf "%s=%d" c n :: acc) rinstr_hist [] in
  Printf.printf "RCALLS %s\n" (String.concat " " (List.sort compare il));
  let okp = List.for_all (fun v -> check_prog (prog_of v) (ann_of v)) [VF; VD; VM; VSF; VSD; VSM] in
  Printf.printf "RCHECKPROG %b\n" okp
