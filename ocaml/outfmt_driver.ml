(* line protocol around the extracted model OutFmt/OutModel.v (module Outfmt); one answer per input line.
   Fields are separated by TABs (printed numbers never contain one).  Big integers in decimal; zarith only
   converts decimal strings <-> the extracted binary positive/Z.
     PARSE s                      -> OK mant exp ndigits sigdigits neg | NONE
     CLOSE s num den              -> T | F | NONE         |value(s) - num/den| <= unit of the last digit of s
     RADGE s num den snum sden    -> T | F | NONE         value(s) >= (num/den) * (1 - snum/sden)
     RSIGEQ s d e num den         -> T | F | NONE | BADEXP   value(s) == round_sig d e (num/den) and e - d <= exp(s)
     PLAN lgn lgd lan lad precf precout -> Z l | S d
     ZEXPFIX lan lad -> l (exponent of the fixed 0.e<l> branch)    GMPCAP bits -> n   OUTDIGIT precout             -> n          PRECDIGITS precf -> n       PRECOF digits -> n
     LAYOUT fmt who               -> kinds, e.g. "Z F F R R"   (who = zero | none | real | imag | ...)
     LINES zero outside n o_0..o_{n-1} c_0..c_{n-1}     -> printed indices (-1 for a zero root)
     COUNT zero outside c_0 ...   -> in out uncertain
   DPE printing path (OutFmt/DpeModel.v); doubles travel as the 16 hex digits of their IEEE bits; the model's two libm
   parameters flog10 / fpow10 are THIS machine's log10 and pow (10.0, .) (OCaml's log10 and ( ** ) call libm's):
     DL mbits esp                 -> dbits TAB l TAB lgbits TAB frbits TAB text('x') TAB text('e') TAB units (|printed mantissa| in units of 1e-14)
                                     (get_dl, the log10 and the fraction handed to pow, rdpe_out_str, rdpe_out_str_u, f14_units)
     MPFRDPE num den              -> mbits esp      (mpf_get_rdpe)
     GNU num den                  -> text           (gnuplot_component)
     ZEXP num den                 -> text           (zero_text (zero_exp_code ..))
     RN53 num den                 -> bits           MAXDIG fmt lgn lgd precf precout -> n *)
module BZ = Z
open Outfmt
let rec pos_of_z (n : BZ.t) : positive =
  if BZ.equal n BZ.one then XH
  else if BZ.testbit n 0 then XI (pos_of_z (BZ.shift_right n 1)) else XO (pos_of_z (BZ.shift_right n 1))
let z_of_z (n : BZ.t) : z = if BZ.sign n = 0 then Z0 else if BZ.sign n > 0 then Zpos (pos_of_z n) else Zneg (pos_of_z (BZ.neg n))
let rec bz_of_pos = function XH -> BZ.one | XO p -> BZ.shift_left (bz_of_pos p) 1 | XI p -> BZ.succ (BZ.shift_left (bz_of_pos p) 1)
let bz_of_z = function Z0 -> BZ.zero | Zpos p -> bz_of_pos p | Zneg p -> BZ.neg (bz_of_pos p)
let q_of num den = { qnum = z_of_z (BZ.of_string num); qden = pos_of_z (BZ.of_string den) }
let zs s = z_of_z (BZ.of_string s)
let rec nat_of_int n = if n <= 0 then O else S (nat_of_int (n - 1))
let rec int_of_nat = function O -> 0 | S n -> 1 + int_of_nat n
let tf b = if b then "T" else "F"
let fmt_of = function "c" -> Compact | "b" -> Bare | "v" -> Verbose | "f" -> Full | "g" -> Gnuplot | "gf" -> GnuplotFull | _ -> failwith "fmt"
let who_of = function "zero" -> None | "none" -> Some ANone | "real" -> Some AReal | "notreal" -> Some ANotReal | "imag" -> Some AImag
  | "notimag" -> Some ANotImag | "notrealimag" -> Some ANotRealImag | _ -> failwith "who"
let incl_of_s = function "0" -> IncUnknown | "1" -> IncIn | "2" -> IncOut | _ -> failwith "incl"
let kind = function FLitZero -> "Z" | FRe true -> "RE" | FRe false -> "REu" | FIm true -> "IM" | FIm false -> "IMu" | FRad -> "R"
(* ---- doubles <-> the extracted rationals (exact both ways; hand written I/O, zarith) *)
let q_of_float (f : float) : q =
  if f = 0.0 then { qnum = Z0; qden = XH }
  else begin
    if Float.is_nan f || Float.is_integer f && Float.abs f = Float.infinity then failwith "nan/inf";
    let (m, e) = Float.frexp f in                 (* f = m * 2^e, 0.5 <= |m| < 1 *)
    let n = BZ.of_float (Float.ldexp m 53) and e = e - 53 in     (* f = n * 2^e, n an integer *)
    if e >= 0 then { qnum = z_of_z (BZ.shift_left n e); qden = XH }
    else { qnum = z_of_z n; qden = pos_of_z (BZ.shift_left BZ.one (- e)) }
  end
let float_of_q (x : q) : float =
  let n = bz_of_z x.qnum and d = bz_of_pos x.qden in
  if BZ.sign n = 0 then 0.0 else begin
    let g = BZ.gcd n d in
    let n = BZ.div n g and d = BZ.div d g in
    let k = BZ.trailing_zeros n in
    let n' = BZ.shift_right n k in
    if BZ.numbits n' > 53 then failwith "not a double (mantissa)";
    if BZ.equal d BZ.one then Float.ldexp (BZ.to_float n') k
    else begin
      let kd = BZ.trailing_zeros d in
      if not (BZ.equal (BZ.shift_right d kd) BZ.one) then failwith "not a double (denominator)";
      Float.ldexp (BZ.to_float n') (k - kd)
    end
  end
let bits_of_float f = Printf.sprintf "%016Lx" (Int64.bits_of_float f)
let float_of_bits s = Int64.float_of_bits (Int64.of_string ("0x" ^ s))
let flog10 (x : q) : q = q_of_float (Float.log10 (float_of_q x))
let fpow10 (x : q) : q = q_of_float (Float.pow 10.0 (float_of_q x))
let answer l =
  match String.split_on_char '\t' l with
  | ["DL"; mb; esp] ->
    let m = q_of_float (float_of_bits mb) and e = zs esp in
    let (d, l) = get_dl flog10 fpow10 m e in
    (* the libm values the model consumed, for the check's reference comparison: recomputed the way dl_pos does *)
    let am = if BZ.sign (bz_of_z m.qnum) < 0 then { m with qnum = z_of_z (BZ.neg (bz_of_z m.qnum)) } else m in
    let lg = if BZ.sign (bz_of_z m.qnum) = 0 then 0.0 else Float.log10 (float_of_q am) in
    let frs = (if BZ.sign (bz_of_z m.qnum) = 0 then "-" else
                 (* fraction = the argument whose pow is |d|: recovered from the model by a recording wrapper *)
                 let cell = ref 0.0 in
                 let fp x = cell := float_of_q x; fpow10 x in
                 ignore (get_dl flog10 fp m e); bits_of_float !cell) in
    String.concat "\t" [bits_of_float (float_of_q d); BZ.to_string (bz_of_z l); bits_of_float lg; frs;
                        rdpe_out_str flog10 fpow10 m e; rdpe_out_str_u flog10 fpow10 m e;
                        BZ.to_string (bz_of_z (f14_units d))]
  | ["MPFRDPE"; n; d] ->
    let (m, e) = mpf_get_rdpe (q_of n d) in bits_of_float (float_of_q m) ^ " " ^ BZ.to_string (bz_of_z e)
  | ["GNU"; n; d] -> gnuplot_component flog10 fpow10 (q_of n d)
  | ["ZEXP"; n; d] -> zero_text (zero_exp_code flog10 fpow10 (q_of n d))
  | ["RN53"; n; d] -> bits_of_float (float_of_q (rn53 (q_of n d)))
  | ["MAXDIG"; f; a; b; pf; po] -> BZ.to_string (bz_of_z (max_digits (fmt_of f) (q_of a b) (zs pf) (zs po)))
  | ["PARSE"; s] ->
    (match decimal_parse s with
     | None -> "NONE"
     | Some p -> Printf.sprintf "OK %s %s %d %d %d" (BZ.to_string (bz_of_z p.p_mant)) (BZ.to_string (bz_of_z p.p_exp))
                   (int_of_nat p.p_ndigits) (int_of_nat (sig_digits p)) (if p.p_neg then 1 else 0))
  | ["CLOSE"; s; n; d] -> (match decimal_parse s with None -> "NONE" | Some p -> tf (close_b p (q_of n d)))
  | ["RADGE"; s; n; d; sn; sd] -> (match decimal_parse s with None -> "NONE" | Some p -> tf (radius_ge_b p (q_of n d) (q_of sn sd)))
  | ["RSIGEQ"; s; d; e; n; dd] ->
    (match decimal_parse s with
     | None -> "NONE"
     | Some p ->
       (match round_sig_checked (zs d) (zs e) (q_of n dd) with
        | None -> "BADEXP"
        | Some r ->
          let v = parsed_value p in
          (* exact comparison of two rationals by cross multiplication, on zarith integers *)
          let eq = BZ.equal (BZ.mul (bz_of_z v.qnum) (bz_of_pos r.qden)) (BZ.mul (bz_of_z r.qnum) (bz_of_pos v.qden)) in
          let nopad = BZ.leq (BZ.sub (BZ.of_string e) (BZ.of_string d)) (bz_of_z p.p_exp) in
          tf (eq && (nopad || BZ.sign (bz_of_z p.p_mant) = 0))))
  | ["PLAN"; a; b; c; d; pf; po] ->
    (match outfloat_plan (q_of a b) (q_of c d) (zs pf) (zs po) with
     | PZeroExp l -> "Z " ^ BZ.to_string (bz_of_z l)
     | PSig d -> "S " ^ BZ.to_string (bz_of_z d))
  | ["ZEXPFIX"; a; b] -> BZ.to_string (bz_of_z (zero_exp_fixed (q_of a b)))
  | ["GMPCAP"; p] -> BZ.to_string (bz_of_z (gmp_digit_cap (zs p)))
  | ["OUTDIGIT"; p] -> BZ.to_string (bz_of_z (out_digit (zs p)))
  | ["PRECDIGITS"; p] -> BZ.to_string (bz_of_z (prec_digits (zs p)))
  | ["PRECOF"; p] -> BZ.to_string (bz_of_z (prec_of_digits (zs p)))
  | ["LAYOUT"; f; w] -> String.concat " " (List.map kind (line_fields (fmt_of f) (who_of w)))
  | "LINES" :: zr :: outside :: n :: rest ->
    let n = int_of_string n in
    let order = List.filteri (fun i _ -> i < n) rest and incs = Array.of_list (List.filteri (fun i _ -> i >= n) rest) in
    let incl_of i = let i = int_of_nat i in if i < Array.length incs then incl_of_s incs.(i) else IncUnknown in
    let r = printed_lines (nat_of_int (int_of_string zr)) (outside = "1") (List.map (fun x -> nat_of_int (int_of_string x)) order) incl_of in
    String.concat " " (List.map (function None -> "-1" | Some i -> string_of_int (int_of_nat i)) r)
  | "COUNT" :: zr :: outside :: incs ->
    let ((a, b), c) = count_roots (nat_of_int (int_of_string zr)) (outside = "1") (List.map incl_of_s incs) in
    Printf.sprintf "%d %d %d" (int_of_nat a) (int_of_nat b) (int_of_nat c)
  | _ -> "BADLINE"
let () =
  try while true do
    let l = input_line stdin in
    print_endline (try answer l with Failure m -> "ERR " ^ m | Invalid_argument m -> "ERR " ^ m)
  done with End_of_file -> ()
