(* line protocol around the extracted model OutFmt/OutModel.v (module Outfmt); one answer per input line.
   Fields are separated by TABs (printed numbers never contain one).  Big integers in decimal; zarith only
   converts decimal strings <-> the extracted binary positive/Z.
     PARSE s                      -> OK mant exp ndigits sigdigits neg | NONE
     CLOSE s num den              -> T | F | NONE         |value(s) - num/den| <= unit of the last digit of s
     RADGE s num den snum sden    -> T | F | NONE         value(s) >= (num/den) * (1 - snum/sden)
     RSIGEQ s d e num den         -> T | F | NONE | BADEXP   value(s) == round_sig d e (num/den) and e - d <= exp(s)
     PLAN lgn lgd lan lad precf precout -> Z l | S d
     ZEXPFIX lan lad -> l (exponent of the fixed 0.e<l> branch)    GMPCAP bits -> n   OUTDIGIT precout             -> n          PRECDIGITS precf -> n       PRECOF digits -> n
     LAYOUT fmt who               -> kinds, e.g. "Z F F R R"   (who = zero | none | real | imag | ...)
     LINES zero outside n o_0..o_{n-1} c_0..c_{n-1}     -> printed indices (-1 for a zero root)
     COUNT zero outside c_0 ...   -> in out uncertain *)
module BZ = Z
open Outfmt
let rec pos_of_z (n : BZ.t) : positive =
  if BZ.equal n BZ.one then XH
  else if BZ.testbit n 0 then XI (pos_of_z (BZ.shift_right n 1)) else XO (pos_of_z (BZ.shift_right n 1))
let z_of_z (n : BZ.t) : z = if BZ.sign n = 0 then Z0 else if BZ.sign n > 0 then Zpos (pos_of_z n) else Zneg (pos_of_z (BZ.neg n))
let rec bz_of_pos = function XH -> BZ.one | XO p -> BZ.shift_left (bz_of_pos p) 1 | XI p -> BZ.succ (BZ.shift_left (bz_of_pos p) 1)
let bz_of_z = function Z0 -> BZ.zero | Zpos p -> bz_of_pos p | Zneg p -> BZ.neg (bz_of_pos p)
let q_of num den = { qnum = z_of_z (BZ.of_string num); qden = pos_of_z (BZ.of_string den) }
let zs s = z_of_z (BZ.of_string s)
let rec nat_of_int n = if n <= 0 then O else S (nat_of_int (n - 1))
let rec int_of_nat = function O -> 0 | S n -> 1 + int_of_nat n
let tf b = if b then "T" else "F"
let fmt_of = function "c" -> Compact | "b" -> Bare | "v" -> Verbose | "f" -> Full | "g" -> Gnuplot | "gf" -> GnuplotFull | _ -> failwith "fmt"
let who_of = function "zero" -> None | "none" -> Some ANone | "real" -> Some AReal | "notreal" -> Some ANotReal | "imag" -> Some AImag
  | "notimag" -> Some ANotImag | "notrealimag" -> Some ANotRealImag | _ -> failwith "who"
let incl_of_s = function "0" -> IncUnknown | "1" -> IncIn | "2" -> IncOut | _ -> failwith "incl"
let kind = function FLitZero -> "Z" | FRe true -> "RE" | FRe false -> "REu" | FIm true -> "IM" | FIm false -> "IMu" | FRad -> "R" | FUndef -> "U"
let answer l =
  match String.split_on_char '\t' l with
  | ["PARSE"; s] ->
    (match decimal_parse s with
     | None -> "NONE"
     | Some p -> Printf.sprintf "OK %s %s %d %d %d" (BZ.to_string (bz_of_z p.p_mant)) (BZ.to_string (bz_of_z p.p_exp))
                   (int_of_nat p.p_ndigits) (int_of_nat (sig_digits p)) (if p.p_neg then 1 else 0))
  | ["CLOSE"; s; n; d] -> (match decimal_parse s with None -> "NONE" | Some p -> tf (close_b p (q_of n d)))
  | ["RADGE"; s; n; d; sn; sd] -> (match decimal_parse s with None -> "NONE" | Some p -> tf (radius_ge_b p (q_of n d) (q_of sn sd)))
  | ["RSIGEQ"; s; d; e; n; dd] ->
    (match decimal_parse s with
     | None -> "NONE"
     | Some p ->
       (match round_sig_checked (zs d) (zs e) (q_of n dd) with
        | None -> "BADEXP"
        | Some r ->
          let v = parsed_value p in
          (* exact comparison of two rationals by cross multiplication, on zarith integers *)
          let eq = BZ.equal (BZ.mul (bz_of_z v.qnum) (bz_of_pos r.qden)) (BZ.mul (bz_of_z r.qnum) (bz_of_pos v.qden)) in
          let nopad = BZ.leq (BZ.sub (BZ.of_string e) (BZ.of_string d)) (bz_of_z p.p_exp) in
          tf (eq && (nopad || BZ.sign (bz_of_z p.p_mant) = 0))))
  | ["PLAN"; a; b; c; d; pf; po] ->
    (match outfloat_plan (q_of a b) (q_of c d) (zs pf) (zs po) with
     | PZeroExp l -> "Z " ^ BZ.to_string (bz_of_z l)
     | PSig d -> "S " ^ BZ.to_string (bz_of_z d))
  | ["ZEXPFIX"; a; b] -> BZ.to_string (bz_of_z (zero_exp_fixed (q_of a b)))
  | ["GMPCAP"; p] -> BZ.to_string (bz_of_z (gmp_digit_cap (zs p)))
  | ["OUTDIGIT"; p] -> BZ.to_string (bz_of_z (out_digit (zs p)))
  | ["PRECDIGITS"; p] -> BZ.to_string (bz_of_z (prec_digits (zs p)))
  | ["PRECOF"; p] -> BZ.to_string (bz_of_z (prec_of_digits (zs p)))
  | ["LAYOUT"; f; w] -> String.concat " " (List.map kind (line_fields (fmt_of f) (who_of w)))
  | "LINES" :: zr :: outside :: n :: rest ->
    let n = int_of_string n in
    let order = List.filteri (fun i _ -> i < n) rest and incs = Array.of_list (List.filteri (fun i _ -> i >= n) rest) in
    let incl_of i = let i = int_of_nat i in if i < Array.length incs then incl_of_s incs.(i) else IncUnknown in
    let r = printed_lines (nat_of_int (int_of_string zr)) (outside = "1") (List.map (fun x -> nat_of_int (int_of_string x)) order) incl_of in
    String.concat " " (List.map (function None -> "-1" | Some i -> string_of_int (int_of_nat i)) r)
  | "COUNT" :: zr :: outside :: incs ->
    let ((a, b), c) = count_roots (nat_of_int (int_of_string zr)) (outside = "1") (List.map incl_of_s incs) in
    Printf.sprintf "%d %d %d" (int_of_nat a) (int_of_nat b) (int_of_nat c)
  | _ -> "BADLINE"
let () =
  try while true do
    let l = input_line stdin in
    print_endline (try answer l with Failure m -> "ERR " ^ m | Invalid_argument m -> "ERR " ^ m)
  done with End_of_file -> ()
