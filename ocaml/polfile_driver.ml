(* C10 driver around the extracted module Polfile (stdin -> stdout, line protocol).

   A description is built with the commands CASE, D, T, B, H, X, O, S, K, L, R, N, P and run with GO:
     D legacy kind degree real ctype sparse prec     (kind M|S|C, ctype I|Q|F, prec decimal or ~)
     T idx num num / B idx num num                   (term / secular b-term)
         num = I,<z>,<lz> | Q,<n>,<lzn>,<d>,<lzd> | F,<xsign>,<int>,<dot 0|1>,<frac>,<exp>
         exp = ~ | <mark char>:<N|P|M>:<digits>      (digit strings may be empty: written as _)
     H/S/R filler    filler = B,<n> | C,<lead>,<xbody>
     X e1e2e3e4      explicit-default bits
     O lead mask eq1 eq2 mid trail comment pre       (mask 0/1 string or -, comment xhex|~, pre = xhex,xhex.. or -)
     K k1,k2,..|-    chunk sizes
     L lead gaps trail comment pre                   (gaps k,k,..|-, pre = filler;filler.. or -)
     N 0|1           final newline
     P k1,k2,..|-    permutation code
     GO   ->  RENDER xhex / DENOTE poly / PARSE result / PARSESTR result / OUTCOME class refine
                (class of parse_outcome on the rendered text: v3 | v2:poly | v2:user | v2:err:<exit> | empty;
                 refine = 1 iff outcome_forget (parse_outcome t) = parse t and the same for parse_string)
   Other commands:
     TEXT xhex   ->  PARSE result / PARSESTR result        (model parsers on arbitrary text)
     DECRAT xhex ->  EQ xhex|~ / RAW num den / VAL num den|~   (mps_utils_build_equivalent_rational_string model,
                                                             what set_coefficient_s stores, its value)
     DECVAL xhex ->  VAL num den|~                          (decimal_value)
     OUTCOME xhex -> OUT class [result] / OUTSTR class [result]   (parse_outcome / parse_string_outcome, the 2.x
                                                             reader statement by statement with its error exit)
     ERS xhex    ->  ERS ~ | ERS xhex exp neg ok / ERSVAL num den|~ / ASM xhex|~
                     (build_equivalent_rational_string of inline-poly-parser.c: string, exponent, sign, clean
                      exponent; what the triple denotes; utils_assemble of it = the utils.c result)
     WITHIN bits sn sd wn wd -> WITHIN 0|1                  (the property's predicate |s-w| <= 2^-bits |w|, decimal integers)
     STORE mpfbits bits wn wd -> STORE num den ok           (model store into an mpf of mpfbits bits, and the predicate on it)
     SETTERS n op;op;...  ->  SET ABORT | SET OOB | SET <struct|unknown> S<spar> Q <coeffs> FP <z | e,n,d,n,d | q> ... GET <0|1>
                     (run of SetterModel.v on m_new n; op = I,i,a,b | Q,i,rn,rd,in,id | S,i,xhex|~,xhex|~ | D,i,n,d,n,d | F,i,n,d,n,d,
                      decimal integers; GET = whether get_q answers)
   texts are "x" ^ hex; integers in results are hexadecimal with sign. *)
open Polfile

let explode s = List.init (String.length s) (String.get s)
let implode l = let b = Buffer.create 64 in List.iter (Buffer.add_char b) l; Buffer.contents b

let unhex s =
  (* s starts with 'x' *)
  let n = (String.length s - 1) / 2 in
  String.init n (fun i -> Char.chr (int_of_string ("0x" ^ String.sub s (1 + 2 * i) 2)))
let hex s = let b = Buffer.create (2 * String.length s + 1) in
  Buffer.add_char b 'x'; String.iter (fun c -> Buffer.add_string b (Printf.sprintf "%02x" (Char.code c))) s; Buffer.contents b
let text_of_x s = explode (unhex s)
let x_of_text t = hex (implode t)

let rec nat_of_int i = if i <= 0 then O else S (nat_of_int (i - 1))
let nat_of_string s = nat_of_int (int_of_string s)

(* Coq binary numbers -> hexadecimal *)
let hex_of_pos (p : positive) : string =
  let bits = ref [] in            (* least significant first *)
  let rec go p = match p with
    | XH -> bits := 1 :: !bits
    | XO q -> bits := 0 :: !bits; go q
    | XI q -> bits := 1 :: !bits; go q in
  go p;
  (* !bits is most significant first now *)
  let l = Array.of_list (List.rev !bits) in   (* lsb first *)
  let n = Array.length l in
  let nd = (n + 3) / 4 in
  let b = Bytes.make nd '0' in
  for d = 0 to nd - 1 do
    let v = ref 0 in
    for k = 3 downto 0 do
      let i = 4 * d + k in
      v := 2 * !v + (if i < n then l.(i) else 0)
    done;
    Bytes.set b (nd - 1 - d) "0123456789abcdef".[!v]
  done;
  Bytes.to_string b
let hex_of_z (z : z) = match z with Z0 -> "0" | Zpos p -> hex_of_pos p | Zneg p -> "-" ^ hex_of_pos p

let n_of_dec s = digits_val (explode s)
let z_of_dec s =
  if String.length s > 0 && s.[0] = '-' then
    (match n_of_dec (String.sub s 1 (String.length s - 1)) with N0 -> Z0 | Npos p -> Zneg p)
  else (match n_of_dec s with N0 -> Z0 | Npos p -> Zpos p)
let pos_of_dec s = match n_of_dec s with Npos p -> p | N0 -> XH

let split c s = String.split_on_char c s
let us s = if s = "_" then "" else s       (* possibly empty digit strings *)

let parse_num (s : string) : num =
  match split ',' s with
  | ["I"; z; lz] -> NInt (z_of_dec z, nat_of_string lz)
  | ["Q"; n; lzn; d; lzd] -> NRat (z_of_dec n, nat_of_string lzn, pos_of_dec d, nat_of_string lzd)
  | ["F"; sg; ip; dot; fp; ex] ->
    let e = if ex = "~" then None else
        (match split ':' ex with
         | [m; sg; dg] -> Some { ex_mark = m.[0]; ex_sign = (match sg with "P" -> EPlus | "M" -> EMinus | _ -> ENone);
                                 ex_digits = explode (us dg) }
         | _ -> failwith "bad exp") in
    NDec { dl_sign = text_of_x sg; dl_int = explode (us ip); dl_dot = (dot = "1"); dl_frac = explode (us fp); dl_exp = e }
  | _ -> failwith ("bad num " ^ s)

let parse_filler s = match split ',' s with
  | ["B"; n] -> FBlank (nat_of_string n)
  | ["C"; lead; body] -> FComment (nat_of_string lead, text_of_x body)
  | _ -> failwith ("bad filler " ^ s)

let opt_text s = if s = "~" then None else Some (text_of_x s)
let list_of f sep s = if s = "-" then [] else List.map f (split sep s)

let kind_name = function KMonomial -> "M" | KSecular -> "S" | KChebyshev -> "C"
let struct_name = function S_RI -> "ri" | S_RQ -> "rq" | S_RF -> "rf" | S_CI -> "ci" | S_CQ -> "cq" | S_CF -> "cf"

let show_coeffs l =
  String.concat " " (List.map (fun (((a, b), (c, d))) ->
      String.concat "," [hex_of_z a; hex_of_z b; hex_of_z c; hex_of_z d]) l)

let show_result = function
  | ParseError -> "ERROR"
  | UserPoly -> "USER"
  | Poly p ->
    Printf.sprintf "POLY %s %s %s %s %s S%s C %d %s B %d %s"
      (kind_name p.p_kind) (hex_of_z p.p_degree) (struct_name p.p_struct)
      (match p.p_density with Dense -> "dense" | Sparse -> "sparse") (hex_of_z p.p_prec)
      (String.concat "" (List.map (fun b -> if b then "1" else "0") p.p_spar))
      (List.length p.p_coeffs) (show_coeffs p.p_coeffs)
      (List.length p.p_bcoeffs) (show_coeffs p.p_bcoeffs)

let v2_error_name = function
  | V2E_no_token -> "no_token" | V2E_data_type -> "data_type" | V2E_data_structure -> "data_structure"
  | V2E_coeff_type -> "coeff_type" | V2E_precision -> "precision" | V2E_degree -> "degree"
  | V2E_coefficients -> "coefficients"

let outcome_class = function
  | O_v3 _ -> "v3"
  | O_empty -> "empty"
  | O_v2 (V2_poly _) -> "v2:poly"
  | O_v2 (V2_user _) -> "v2:user"
  | O_v2 (V2_error e) -> "v2:err:" ^ v2_error_name e

let show_outcome o =
  outcome_class o ^ (match o with
      | O_v3 r -> " " ^ show_result r
      | O_v2 (V2_poly p) -> " " ^ show_result (Poly p)
      | O_v2 (V2_user n) -> " " ^ hex_of_z n
      | _ -> "")

let q_of_dec n d = { qnum = z_of_dec n; qden = pos_of_dec d }

(* current description *)
let d_head = ref (false, KMonomial, O, false, TFloat, false, None)
let terms = ref [] and bterms = ref []
let header = ref [] and sep = ref [] and trailer = ref []
let explicit = ref (((false, false), false), false)
let opts = ref [] and chunks = ref [] and lines = ref []
let finalnl = ref true and perm = ref []

let reset () =
  terms := []; bterms := []; header := []; sep := []; trailer := []; opts := []; chunks := []; lines := [];
  finalnl := true; perm := []; explicit := (((false, false), false), false)

let () =
  try
    while true do
      let line = input_line stdin in
      let w = split ' ' line in
      (match w with
       | ["CASE"] -> reset ()
       | ["D"; lg; k; deg; re; ct; sp; pr] ->
         d_head := (lg = "1", (match k with "S" -> KSecular | "C" -> KChebyshev | _ -> KMonomial), nat_of_string deg,
                    re = "1", (match ct with "I" -> TInteger | "Q" -> TRational | _ -> TFloat), sp = "1",
                    (if pr = "~" then None else Some (pos_of_dec pr)))
       | ["T"; i; a; b] -> terms := { t_idx = nat_of_string i; t_re = parse_num a; t_im = parse_num b } :: !terms
       | ["B"; i; a; b] -> bterms := { t_idx = nat_of_string i; t_re = parse_num a; t_im = parse_num b } :: !bterms
       | ["H"; f] -> header := parse_filler f :: !header
       | ["S"; f] -> sep := parse_filler f :: !sep
       | ["R"; f] -> trailer := parse_filler f :: !trailer
       | ["X"; e] -> explicit := (((e.[0] = '1', e.[1] = '1'), e.[2] = '1'), e.[3] = '1')
       | ["O"; lead; mask; e1; e2; mid; trail; com; pre] ->
         opts := { od_pre = list_of text_of_x ',' pre; od_lead = nat_of_string lead;
                   od_mask = (if mask = "-" then [] else List.map (fun c -> c = '1') (explode mask));
                   od_eq1 = nat_of_string e1; od_eq2 = nat_of_string e2; od_mid = nat_of_string mid;
                   od_trail = nat_of_string trail; od_comment = opt_text com } :: !opts
       | ["K"; ks] -> chunks := list_of nat_of_string ',' ks
       | ["L"; lead; gaps; trail; com; pre] ->
         lines := { ld_pre = list_of parse_filler ';' pre; ld_lead = nat_of_string lead;
                    ld_gaps = list_of nat_of_string ',' gaps; ld_trail = nat_of_string trail;
                    ld_comment = opt_text com } :: !lines
       | ["N"; b] -> finalnl := (b = "1")
       | ["P"; ks] -> perm := list_of nat_of_string ',' ks
       | ["GO"] ->
         let (lg, k, deg, re, ct, sp, pr) = !d_head in
         let d = { d_legacy = lg; d_kind = k; d_degree = deg; d_real = re; d_ctype = ct; d_sparse = sp; d_prec = pr;
                   d_terms = List.rev !terms; d_bterms = List.rev !bterms } in
         let st = { st_header = List.rev !header; st_explicit = !explicit; st_opts = List.rev !opts;
                    st_sep = List.rev !sep; st_chunks = !chunks; st_lines = List.rev !lines;
                    st_trailer = List.rev !trailer; st_final_newline = !finalnl } in
         let t = render st !perm d in
         print_endline ("RENDER " ^ x_of_text t);
         print_endline ("DENOTE " ^ show_result (Poly (denote d)));
         print_endline ("PARSE " ^ show_result (parse t));
         print_endline ("PARSESTR " ^ show_result (parse_string t));
         let o = parse_outcome t in
         let ok = (outcome_forget o = parse t) && (outcome_forget (parse_string_outcome t) = parse_string t) in
         print_endline ("OUTCOME " ^ outcome_class o ^ " " ^ (if ok then "1" else "0"))
       | ["OUTCOME"; x] ->
         let t = text_of_x x in
         print_endline ("OUT " ^ show_outcome (parse_outcome t));
         print_endline ("OUTSTR " ^ show_outcome (parse_string_outcome t))
       | ["ERS"; x] ->
         let t = text_of_x x in
         (match build_ers t with
          | None -> print_endline "ERS ~"; print_endline "ERSVAL ~"; print_endline "ASM ~"
          | Some (((p, e), neg), ok) ->
            print_endline (Printf.sprintf "ERS %s %s %d %d" (x_of_text p) (hex_of_z e) (if neg then 1 else 0) (if ok then 1 else 0));
            (match ers_value (((p, e), neg), ok) with
             | None -> print_endline "ERSVAL ~"
             | Some q -> print_endline ("ERSVAL " ^ hex_of_z q.qnum ^ " " ^ hex_of_pos q.qden));
            print_endline ("ASM " ^ x_of_text (utils_assemble p e neg)))
       | ["WITHIN"; bits; sn; sd; wn; wd] ->
         print_endline ("WITHIN " ^ (if within_precb (pos_of_dec bits) (q_of_dec sn sd) (q_of_dec wn wd) then "1" else "0"))
       | ["STORE"; mb; bits; wn; wd] ->
         let w = q_of_dec wn wd in
         let s = trunc_bits (pos_of_dec mb) w in
         print_endline ("STORE " ^ hex_of_z s.qnum ^ " " ^ hex_of_pos s.qden ^ " " ^
                        (if within_precb (pos_of_dec bits) s w then "1" else "0"))
       | ["SETTERS"; n; ops] ->
         let qq a b = { qnum = z_of_dec a; qden = pos_of_dec b } in
         let parse_op o = match split ',' o with
           | ["I"; i; a; b] -> OpInt (nat_of_string i, z_of_dec a, z_of_dec b)
           | ["Q"; i; rn; rd; im; id] -> OpQ (nat_of_string i, (z_of_dec rn, z_of_dec rd), (z_of_dec im, z_of_dec id))
           | ["S"; i; a; b] -> OpS (nat_of_string i, opt_text a, opt_text b)
           | ["D"; i; a; b; c; d] -> OpD (nat_of_string i, qq a b, qq c d)
           | ["F"; i; a; b; c; d] -> OpF (nat_of_string i, qq a b, qq c d)
           | _ -> failwith ("bad op " ^ o) in
         (match run (List.map parse_op (split ';' ops)) (m_new (nat_of_string n)) with
          | SAbort -> print_endline "SET ABORT"
          | SOutOfBounds -> print_endline "SET OOB"
          | SOk m ->
            let fp = function
              | FZero -> "z"
              | FExact (x, y) -> String.concat "," ["e"; hex_of_z x.qnum; hex_of_pos x.qden; hex_of_z y.qnum; hex_of_pos y.qden]
              | FFromQ _ -> "q" in
            print_endline (Printf.sprintf "SET %s S%s Q %s FP %s GET %d"
              (match m.m_struct with None -> "unknown" | Some s -> struct_name s)
              (String.concat "" (List.map (fun b -> if b then "1" else "0") m.m_spar))
              (show_coeffs m.m_q) (String.concat " " (List.map fp m.m_fp))
              (match get_q m O with Some _ -> 1 | None -> 0)))
       | ["TEXT"; x] ->
         let t = text_of_x x in
         print_endline ("PARSE " ^ show_result (parse t));
         print_endline ("PARSESTR " ^ show_result (parse_string t))
       | ["DECRAT"; x] ->
         let t = text_of_x x in
         (match equiv_rational_string t with
          | None -> print_endline "EQ ~"
          | Some s -> print_endline ("EQ " ^ x_of_text s));
         let (n, dn) = api_coeff_raw t in
         print_endline ("RAW " ^ hex_of_z n ^ " " ^ hex_of_z dn);
         (match api_coeff_value t with
          | None -> print_endline "VAL ~"
          | Some q -> print_endline ("VAL " ^ hex_of_z q.qnum ^ " " ^ hex_of_pos q.qden))
       | ["DECVAL"; x] ->
         (match decimal_value (text_of_x x) with
          | None -> print_endline "VAL ~"
          | Some q -> print_endline ("VAL " ^ hex_of_z q.qnum ^ " " ^ hex_of_pos q.qden))
       | [""] | [] -> ()
       | _ -> print_endline ("BAD " ^ line));
    done
  with End_of_file -> ()
