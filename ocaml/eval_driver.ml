(* bin/eval: line-protocol driver around the extracted module Eval (C14).
   Only parses numbers, calls the extracted functions and prints their results.

   Numbers: rationals "NUM/DEN" or "NUM", NUM and DEN hexadecimal, optional leading '-'.
   A complex number is two consecutive rationals (re im).
   Input lines (tokens separated by blanks):
     M k  c_0 .. c_{k-1}  x          monomial, k coefficients from degree 0 upwards
     C k  c_0 .. c_{k-1}  x          Chebyshev basis
     S k  a_0 b_0 .. a_{k-1} b_{k-1}  x     secular equation sum a_i/(x-b_i) - 1
   Output, one line per input line:
     M re im bound flag     p(x), upper bound of p~(|x|), flag=1 iff the sparse scheme (exact twin,
                            pattern = nonzero coefficients, q = ceil(log2(k+1)) passes) gives the same value
     C re im bound flag est maj   sum c_k T_k(x), upper bound of sum |c_k| T~_k(|x|), flag=1 iff the coded
                            forward recurrence (exact twin) gives the same value; est = the coded error estimate
                            without its roundings and without the factor u2 (cheb_est_q), maj = the same sum over
                            the majorants T~_k
     S sre sim pre pim bound est   S(x), P(x) = -S(x) prod (x-b_i), upper bound of (sum|a_i|/|x-b_i| + 1) prod|x-b_i|,
                            est = the coded error estimate without roundings and without u4 (sec_est_q)
     S POLE                 x equals some b_i
*)
open Eval

let hexval c = match c with
  | '0'..'9' -> Char.code c - 48
  | 'a'..'f' -> Char.code c - 87
  | 'A'..'F' -> Char.code c - 55
  | _ -> failwith "bad hex digit"

let pos_of_hex (s : string) : positive option =
  let acc = ref None in
  String.iter (fun c ->
    let v = hexval c in
    for k = 3 downto 0 do
      let bit = (v lsr k) land 1 = 1 in
      acc := (match !acc with
              | None -> if bit then Some XH else None
              | Some p -> Some (if bit then XI p else XO p))
    done) s;
  !acc

let z_of_hex (s0 : string) : z =
  let neg = String.length s0 > 0 && s0.[0] = '-' in
  let s = if neg then String.sub s0 1 (String.length s0 - 1) else s0 in
  match pos_of_hex s with None -> Z0 | Some p -> if neg then Zneg p else Zpos p

let q_of_string (s : string) : q =
  match String.index_opt s '/' with
  | None -> { qnum = z_of_hex s; qden = XH }
  | Some i ->
    let n = z_of_hex (String.sub s 0 i) in
    (match pos_of_hex (String.sub s (i + 1) (String.length s - i - 1)) with
     | None -> failwith "zero denominator"
     | Some d -> { qnum = n; qden = d })

(* positive -> hex, linear: collect bits least significant first *)
let hex_of_pos (p : positive) : string =
  let bits = Buffer.create 64 in
  let rec go = function
    | XH -> Buffer.add_char bits '1'
    | XO p -> Buffer.add_char bits '0'; go p
    | XI p -> Buffer.add_char bits '1'; go p in
  go p;
  let n = Buffer.length bits in
  let nd = (n + 3) / 4 in
  let out = Bytes.make nd '0' in
  for d = 0 to nd - 1 do
    let v = ref 0 in
    for k = 0 to 3 do
      let i = 4 * d + k in
      if i < n && Buffer.nth bits i = '1' then v := !v lor (1 lsl k)
    done;
    Bytes.set out (nd - 1 - d) "0123456789abcdef".[!v]
  done;
  Bytes.to_string out

let hex_of_z = function
  | Z0 -> "0"
  | Zpos p -> hex_of_pos p
  | Zneg p -> "-" ^ hex_of_pos p

let string_of_q (x : q) = hex_of_z x.qnum ^ "/" ^ hex_of_pos x.qden

let rec nat_of_int n = if n <= 0 then O else S (nat_of_int (n - 1))

let log2_up n = (* smallest k with 2^k >= n *)
  let k = ref 0 in while (1 lsl !k) < n do incr k done; !k

let qc_eq (a : qC) (b : qC) = qc_eqb a b
(* (a, b, d) stands for (a + b i)/d *)
let string_of_qc (v : qC) =
  let ((a, b), d) = v in
  hex_of_z a ^ "/" ^ hex_of_pos d ^ " " ^ hex_of_z b ^ "/" ^ hex_of_pos d

let () =
  try
    while true do
      let line = input_line stdin in
      let toks = Array.of_list (List.filter (fun s -> s <> "") (String.split_on_char ' ' (String.trim line))) in
      if Array.length toks > 0 then begin
        let pos = ref 2 in
        let next_q () = let v = q_of_string toks.(!pos) in incr pos; v in
        let next_c () = let r = next_q () in let i = next_q () in qc_of_q r i in
        let k = int_of_string toks.(1) in
        (match toks.(0) with
         | "M" ->
           let cs = List.init k (fun _ -> next_c ()) in
           let x = next_c () in
           let (v, b) = eval_mono_q cs x in
           let pat = List.map (fun c -> if qc_is0 c then None else Some c) cs in
           let sv = sparse_q (nat_of_int (log2_up (k + 1))) x pat in
           Printf.printf "M %s %s %d\n" (string_of_qc v) (string_of_q b)
             (if qc_eq sv v then 1 else 0)
         | "C" ->
           let cs = List.init k (fun _ -> next_c ()) in
           let x = next_c () in
           let (v, b) = eval_cheb_q cs x in
           (* specification value (naive T_k, exponential time) only for small degrees *)
           let same = if k <= 14 then qc_eq (cheb_q cs O x) v else true in
           let (e, m) = cheb_est_q cs x in
           Printf.printf "C %s %s %d %s %s\n" (string_of_qc v) (string_of_q b) (if same then 1 else 0)
             (string_of_q e) (string_of_q m)
         | "S" ->
           let ab = List.init k (fun _ -> let a = next_c () in let b = next_c () in (a, b)) in
           let x = next_c () in
           (match eval_sec_q ab x with
            | None -> print_string "S POLE\n"
            | Some ((s, p), b) ->
              Printf.printf "S %s %s %s %s\n" (string_of_qc s) (string_of_qc p) (string_of_q b)
                (string_of_q (sec_est_q ab x)))
         | _ -> failwith "unknown command");
        flush stdout
      end
    done
  with End_of_file -> ()
