(* C03: line-protocol driver around the extracted trace acceptors (module Total).
   input : "U|S max_pack max_it mpwp_max goal in_prec ferr finc avoid ; tok tok ..."
           goal 0 isolate / 1 approximate / 2 count; tokens: Pf Pd Pm W:<n> K I:<n> NC IT R
           "X max_pack max_it mpwp_max goal in_prec ferr lastphase avoid kind startphase crude jacobi canimprove ; tok ..."
           (extended secular skeleton, Total.check_x; lastphase/startphase 0 none 1 float 2 dpe 3 mp; kind m|o|s;
            tokens: the EVX tags of harness/c03_solve.c, improve:<n>)
   output: "OK <skeleton steps> <bound>"  |  "REJECT <U|S|X> left=<events not consumed> steps=<n> bound=<b>" *)
open Total

let rec nat_of_int n = if n <= 0 then O else S (nat_of_int (n - 1))
let int_of_nat n = let rec go acc = function O -> acc | S m -> go (acc + 1) m in go 0 n

let ev_of_tok t =
  match String.split_on_char ':' t with
  | ["Pf"] -> EPh SF | ["Pd"] -> EPh SD | ["Pm"] -> EPh SM
  | ["W"; n] -> EW (nat_of_int (int_of_string n))
  | ["K"] -> EK
  | ["I"; n] -> EI (nat_of_int (int_of_string n))
  | ["NC"] -> ENC | ["IT"] -> EIter | ["R"] -> ERaise
  | _ -> failwith ("bad token " ^ t)

let xev_of_tok t =
  match String.split_on_char ':' t with
  | ["seceq"] -> VSecEq | ["cd-f"] -> VCd false | ["cd-d"] -> VCd true | ["pre"] -> VPre | ["pre-fpe"] -> VPreFpe
  | ["back"] -> VBack | ["swd"] -> VSwD | ["regfail"] -> VRegFail | ["starts"] -> VStarts | ["cleanerr"] -> VCleanErr
  | ["it-f"] -> VIt FloatP | ["it-d"] -> VIt DpeP | ["it-m"] -> VIt MpP | ["it-fpe"] -> VItFpe | ["stop"] -> VStop
  | ["avoid"] -> VAvoid | ["switch"] -> VSwitch | ["raise"] -> VRaise | ["regraise"] -> VRegRaise | ["reg1fail"] -> VReg1Fail
  | ["cleanup"] -> VCleanup | ["improve"; n] -> VImp (nat_of_int (int_of_string n))
  | _ -> failwith ("bad token " ^ t)

let phase_of_string = function "1" -> FloatP | "2" -> DpeP | "3" -> MpP | _ -> NoPhase

let () =
  try
    while true do
      let line = input_line stdin in
      (try
        let head, toks =
          match String.index_opt line ';' with
          | Some i -> String.sub line 0 i, String.sub line (i + 1) (String.length line - i - 1)
          | None -> line, "" in
        let h = List.filter (fun x -> x <> "") (String.split_on_char ' ' head) in
        let t = List.filter (fun x -> x <> "") (String.split_on_char ' ' toks) in
        (match h with
         | [kind; mp; mi; mw; goal; prec; ferr; finc; avoid] ->
           let evs = List.map ev_of_tok t in
           let first f = List.fold_left (fun acc e -> match acc, f e with None, Some v -> Some v | _ -> acc) None evs in
           let w0 = match first (function EW n -> Some (int_of_nat n) | _ -> None) with Some w -> max 1 (w / 2) | None -> 64 in
           let i0 = match first (function EI n -> Some (int_of_nat n) | _ -> None) with Some w -> max 1 w | None -> 53 in
           let c = { max_pack = nat_of_int (int_of_string mp); max_it = nat_of_int (int_of_string mi); mpwp_max = nat_of_int (int_of_string mw) } in
           let g = { cgoal = (match goal with "1" -> Approximate | "2" -> Count | _ -> Isolate); resume = false;
                     in_prec = nat_of_int (int_of_string prec); mpwp0 = nat_of_int w0; wp_min = nat_of_int i0; avoid_mp = (avoid = "1") } in
           if kind = "U" then begin
             let (((ok, n), left), b) = check_u c g (ferr = "1") (finc = "1") evs in
             if ok then Printf.printf "OK %d %d\n" (int_of_nat n) (int_of_nat b)
             else Printf.printf "REJECT U left=%d steps=%d bound=%d\n" (int_of_nat left) (int_of_nat n) (int_of_nat b)
           end else begin
             let ((ok, n), left) = check_s c g (ferr = "1") evs in
             if ok then Printf.printf "OK %d 0\n" (int_of_nat n)
             else Printf.printf "REJECT S left=%d steps=%d bound=0\n" (int_of_nat left) (int_of_nat n)
           end
         | ["X"; mp; mi; mw; goal; prec; ferr; lp; avoid; kind; sp; crude; jac; canimp] ->
           let evs = List.map xev_of_tok t in
           let first f = List.fold_left (fun acc e -> match acc, f e with None, Some v -> Some v | _ -> acc) None evs in
           let i0 = match first (function VImp n -> Some (int_of_nat n) | _ -> None) with Some w -> max 1 w | None -> 53 in
           let c = { max_pack = nat_of_int (int_of_string mp); max_it = nat_of_int (int_of_string mi); mpwp_max = nat_of_int (int_of_string mw) } in
           let g = { xgoal = (match goal with "1" -> Approximate | "2" -> Count | _ -> Isolate);
                     xin_prec = nat_of_int (int_of_string prec); xwp_min = nat_of_int i0; xavoid_mp = (avoid = "1");
                     kind = (match kind with "s" -> KSecular | "o" -> KOther | _ -> KMonomial); start_phase = phase_of_string sp;
                     crude = (crude = "1"); jacobi = (jac = "1"); can_improve = (canimp = "1") } in
           let ((ok, n), left) = check_x c g (ferr = "1") (phase_of_string lp) evs in
           if ok then Printf.printf "OK %d 0\n" (int_of_nat n)
           else Printf.printf "REJECT X left=%d steps=%d bound=0\n" (int_of_nat left) (int_of_nat n)
         | _ -> print_endline "REJECT ? bad-header")
      with e -> Printf.printf "REJECT ? exception:%s\n" (Printexc.to_string e));
      flush stdout
    done
  with End_of_file -> ()
