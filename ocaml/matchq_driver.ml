(* line protocol for the verified matching checker (Match/MatchCheck.v):
     A re_num re_den im_num im_den r_num r_den      disc of the first family (decimal big integers, den > 0)
     B ...                                           disc of the second family
     S j0 j1 j2 ...                                  proposed matching: i -> j_i
     GO                                              prints OK or FAIL and resets
   zarith is used only to turn decimal strings into bits. *)
module BZ = Z    (* zarith; the extracted module has its own Z *)
open Matchq
let rec pos_of_z (n : BZ.t) : positive =
  if BZ.equal n BZ.one then XH
  else if BZ.testbit n 0 then XI (pos_of_z (BZ.shift_right n 1)) else XO (pos_of_z (BZ.shift_right n 1))
let z_of_z (n : BZ.t) : z = if BZ.sign n = 0 then Z0 else if BZ.sign n > 0 then Zpos (pos_of_z n) else Zneg (pos_of_z (BZ.neg n))
let q_of num den = { qnum = z_of_z (BZ.of_string num); qden = pos_of_z (BZ.of_string den) }
let rec nat_of_int n = if n <= 0 then O else S (nat_of_int (n - 1))
let () =
  let a = ref [] and b = ref [] and s = ref [] in
  try while true do
    let l = input_line stdin in
    match String.split_on_char ' ' (String.trim l) with
    | ("A" | "B") as t :: [rn; rd; im; id; qn; qd] ->
      let d = { cre = q_of rn rd; cim = q_of im id; rad = q_of qn qd } in
      if t = "A" then a := d :: !a else b := d :: !b
    | "S" :: js -> s := List.map (fun j -> nat_of_int (int_of_string j)) (List.filter (fun x -> x <> "") js)
    | ["GO"] ->
      print_endline (if check_matching (List.rev !a) (List.rev !b) !s then "OK" else "FAIL");
      a := []; b := []; s := []
    | [""] -> ()
    | _ -> print_endline "BADLINE"
  done with End_of_file -> ()
