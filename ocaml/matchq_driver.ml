(* line protocol for the verified matching checker (Match/MatchCheck.v):
     A re_num re_den im_num im_den r_num r_den      disc of the first family (decimal big integers, den > 0)
     B ...                                           disc of the second family
     S j0 j1 j2 ...                                  proposed matching: i -> j_i
     GO                                              prints OK or FAIL and resets
   conversions between equivalent formulations (Match/ConvertModel.v); a complex rational is 4 decimal
   integers  re_num re_den im_num im_den  (denominators non-zero):
     P c0 c1 ...        polynomial, low degree first          N b0 b1 ...   nodes        C c   constant
     K c0 c1 ...        proposed Chebyshev coefficients
     SCALE | RESCALE | REVERSE      prints  R <coefficients>   of  C*p | p(C x) | reversed p
     SECULAR <0|1>      prints  S <pre> <back> a0 b0 a1 b1 ...  (regenerated secular form of P on nodes N;
                        pre = conv_secular_pre, back = secular_back_ok when the argument is 1, else -)
     CHEB               prints  K <0|1> = chebyshev_back_ok P K
   zarith is used only to turn decimal strings into bits and back. *)
module BZ = Z    (* zarith; the extracted module has its own Z *)
open Matchq
let rec pos_of_z (n : BZ.t) : positive =
  if BZ.equal n BZ.one then XH
  else if BZ.testbit n 0 then XI (pos_of_z (BZ.shift_right n 1)) else XO (pos_of_z (BZ.shift_right n 1))
let z_of_z (n : BZ.t) : z = if BZ.sign n = 0 then Z0 else if BZ.sign n > 0 then Zpos (pos_of_z n) else Zneg (pos_of_z (BZ.neg n))
let q_of num den = { qnum = z_of_z (BZ.of_string num); qden = pos_of_z (BZ.of_string den) }
let rec nat_of_int n = if n <= 0 then O else S (nat_of_int (n - 1))
let rec bz_of_pos (p : positive) : BZ.t = match p with
  | XH -> BZ.one | XO q -> BZ.shift_left (bz_of_pos q) 1 | XI q -> BZ.succ (BZ.shift_left (bz_of_pos q) 1)
let bz_of_z (n : z) : BZ.t = match n with Z0 -> BZ.zero | Zpos p -> bz_of_pos p | Zneg p -> BZ.neg (bz_of_pos p)
let rec gqs_of_tokens = function
  | rn :: rd :: im :: id :: rest ->
    gq_of_rcoef { re_n = z_of_z (BZ.of_string rn); re_d = z_of_z (BZ.of_string rd);
                  im_n = z_of_z (BZ.of_string im); im_d = z_of_z (BZ.of_string id) } :: gqs_of_tokens rest
  | [] -> []
  | _ -> failwith "bad complex rational"
let str_of_gq (x : gq) : string =
  let r = rcoef_of_gq x in
  String.concat " " (List.map (fun v -> BZ.to_string (bz_of_z v)) [r.re_n; r.re_d; r.im_n; r.im_d])
let str_of_poly (p : gq list) = String.concat " " (List.map str_of_gq p)
let b01 b = if b then "1" else "0"
let () =
  let a = ref [] and b = ref [] and s = ref [] in
  let pol = ref [] and nodes = ref [] and cst = ref gq_one and cheb = ref [] in
  try while true do
    let l = input_line stdin in
    match List.filter (fun x -> x <> "") (String.split_on_char ' ' (String.trim l)) with
    | ("A" | "B") as t :: [rn; rd; im; id; qn; qd] ->
      let d = { cre = q_of rn rd; cim = q_of im id; rad = q_of qn qd } in
      if t = "A" then a := d :: !a else b := d :: !b
    | "S" :: js -> s := List.map (fun j -> nat_of_int (int_of_string j)) js
    | ["GO"] ->
      print_endline (if check_matching (List.rev !a) (List.rev !b) !s then "OK" else "FAIL");
      a := []; b := []; s := []
    | "P" :: ts -> pol := gqs_of_tokens ts
    | "N" :: ts -> nodes := gqs_of_tokens ts
    | "K" :: ts -> cheb := gqs_of_tokens ts
    | "C" :: ts -> (match gqs_of_tokens ts with [c] -> cst := c | _ -> failwith "C needs one number")
    | ["SCALE"] -> print_endline ("R " ^ str_of_poly (conv_scale !cst !pol))
    | ["RESCALE"] -> print_endline ("R " ^ str_of_poly (conv_rescale !cst !pol))
    | ["REVERSE"] -> print_endline ("R " ^ str_of_poly (conv_reverse !pol))
    | ["SECULAR"; back] ->
      let pre = conv_secular_pre !pol !nodes in
      if not pre then print_endline "S 0 -" else begin
        let ab = conv_secular !pol !nodes in
        let bk = if back = "1" then b01 (secular_back_ok !pol ab) else "-" in
        print_endline ("S 1 " ^ bk ^ " " ^ String.concat " " (List.map (fun (x, y) -> str_of_gq x ^ " " ^ str_of_gq y) ab))
      end
    | ["CHEB"] -> print_endline ("K " ^ b01 (chebyshev_back_ok !pol !cheb))
    | [] -> ()
    | _ -> print_endline "BADLINE"
  done with End_of_file -> ()
