(* C07 -- line-protocol driver around the extracted list-operation model of cluster.c (module Clops).
   stdin : <id> <op> <op> ...      one operation sequence per line, executed from the empty state
             N              mps_cluster_empty                      (new free-standing cluster)
             IRi:<h>:<k>    mps_cluster_insert_root into the cluster of item h      IRl:<h>:<k>  into loose cluster h
             RRi:<h>:<hr>   mps_cluster_remove_root of node hr of item h            RRl:<h>:<hr>
             IC:<h>         mps_clusterization_insert_cluster of loose cluster h
             P:<h>          mps_clusterization_pop_cluster      X:<h>  mps_clusterization_remove_cluster
             DA             mps_clusterization_detach_clusters  DS:<hi>:<hr>  one pass of its (disabled) loop body
             RA             mps_clusterization_reassemble_clusters            RS:<n>  mps_cluster_reset with s->n = n
   stdout: <id> BEGIN, then one line per operation
             <id> <index> <op> zn=<n> items=<ih>/<det|->/<cn>/<rh>:<k>,...;...  loose=<h>/<cn>/<nodes>;... popped=...
           (items in list order, loose and popped sorted by handle), or  <id> <index> <op> NONE  when the model says the C
           code would dereference NULL / a dangling pointer (the rest of the sequence is skipped), then <id> END *)
open Clops

let rec nat_of_int (k : int) : nat = if k <= 0 then O else S (nat_of_int (k - 1))
let int_of_nat (x : nat) : int = let rec go acc = function O -> acc | S y -> go (acc + 1) y in go 0 x
let rec int_of_pos = function XH -> 1 | XO p -> 2 * int_of_pos p | XI p -> 2 * int_of_pos p + 1
let int_of_z = function Z0 -> 0 | Zpos p -> int_of_pos p | Zneg p -> - (int_of_pos p)

let parse_op (t : string) : op =
  match String.split_on_char ':' t with
  | ["N"] -> OpNewCluster
  | ["IRi"; h; k] -> OpInsertRoot (TItem (nat_of_int (int_of_string h)), nat_of_int (int_of_string k))
  | ["IRl"; h; k] -> OpInsertRoot (TLoose (nat_of_int (int_of_string h)), nat_of_int (int_of_string k))
  | ["RRi"; h; r] -> OpRemoveRoot (TItem (nat_of_int (int_of_string h)), nat_of_int (int_of_string r))
  | ["RRl"; h; r] -> OpRemoveRoot (TLoose (nat_of_int (int_of_string h)), nat_of_int (int_of_string r))
  | ["IC"; h] -> OpInsertCluster (nat_of_int (int_of_string h))
  | ["P"; h] -> OpPop (nat_of_int (int_of_string h))
  | ["X"; h] -> OpRemove (nat_of_int (int_of_string h))
  | ["DA"] -> OpDetachAll
  | ["DS"; h; r] -> OpDetachStep (nat_of_int (int_of_string h), nat_of_int (int_of_string r))
  | ["RA"] -> OpReassemble
  | ["RS"; n] -> OpReset (nat_of_int (int_of_string n))
  | _ -> failwith ("bad op " ^ t)

let show_nodes (c : cluster) : string =
  String.concat "," (List.map (fun r -> Printf.sprintf "%d:%d" (int_of_nat r.rh) (int_of_nat r.rk)) c.croots)
let show_item (it : item) : string =
  Printf.sprintf "%d/%s/%d/%s" (int_of_nat it.ih) (match it.idet with None -> "-" | Some d -> string_of_int (int_of_nat d))
    (int_of_z it.icl.cn) (show_nodes it.icl)
let show_loose ((h, c) : nat * cluster) : int * string = (int_of_nat h, Printf.sprintf "%d/%d/%s" (int_of_nat h) (int_of_z c.cn) (show_nodes c))
let show_popped (it : item) : int * string = (int_of_nat it.ih, Printf.sprintf "%d/%d/%s" (int_of_nat it.ih) (int_of_z it.icl.cn) (show_nodes it.icl))
let sorted l = String.concat ";" (List.map snd (List.sort compare l))
let show_state (s : state) : string =
  Printf.sprintf "zn=%d items=%s loose=%s popped=%s" (int_of_z s.zn) (String.concat ";" (List.map show_item s.items))
    (sorted (List.map show_loose s.loose)) (sorted (List.map show_popped s.popped))

let () =
  try
    while true do
      let line = input_line stdin in
      match List.filter (fun t -> t <> "") (String.split_on_char ' ' (String.trim line)) with
      | [] -> ()
      | id :: ops ->
        Printf.printf "%s BEGIN\n" id;
        let st = ref (Some init) in
        List.iteri (fun i t ->
            match !st with
            | None -> ()
            | Some s ->
              (match step (parse_op t) s with
               | None -> Printf.printf "%s %d %s NONE\n" id i t; st := None
               | Some s' -> Printf.printf "%s %d %s %s\n" id i t (show_state s'); st := Some s')) ops;
        Printf.printf "%s END\n" id
    done
  with End_of_file -> ()
