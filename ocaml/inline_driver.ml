(* C11 driver: one expression per stdin line ->
     ERR                                   rejected by the model (lexer or reference parser)
     OK <deg> <re0> <im0> <re1> <im1> ...  exact coefficients of [denote], ascending degree
     FPDIFF ...                            the formal-polynomial model (C++ operations as coded)
                                           disagrees with the reference denotation (never expected:
                                           excluded by theorem C11_run_string_consistent)
     LRDIFF ref=... lr=...                 the pipeline as generated (flex token names, bison's table run
                                           by the yacc skeleton model, grammar actions: run_yacc_string)
                                           disagrees with lexer + reference parser + denotation
     GENDIFF hand-lexer=... generated-lexer=...   the pipeline over the scanner GENERATED from tokenizer.l
                                           (run_gen_string) disagrees with the one over the hand-written
                                           scanner model (never expected: theorem C11_generated_lexer_agrees)
   With the argument "lex": hex-encoded inputs, see [lex_mode] below.
   Coefficients are printed like GMP prints canonical mpq: "n" or "n/d". *)
open Inline

(* positive -> decimal string without zarith (the shared Makefile links only str,unix):
   little-endian limbs base 10^9, Horner on the bits from the most significant one. *)
let base = 1_000_000_000
let dbl_add (v : int list) (bit : int) : int list =
  let rec go v carry = match v with
    | [] -> if carry = 0 then [] else [carry]
    | x :: r -> let y = 2 * x + carry in (y mod base) :: go r (y / base) in
  go v bit
let rec pos_limbs (p : positive) : int list =
  match p with
  | XH -> [1]
  | XO q -> dbl_add (pos_limbs q) 0
  | XI q -> dbl_add (pos_limbs q) 1
let limbs_str (v : int list) : string =
  match List.rev v with
  | [] -> "0"
  | hd :: tl -> String.concat "" (string_of_int hd :: List.map (Printf.sprintf "%09d") tl)
let pos_str p = limbs_str (pos_limbs p)
let z_str (z : z) = match z with Z0 -> "0" | Zpos p -> pos_str p | Zneg p -> "-" ^ pos_str p

let q_str ((n, d) : z * positive) : string =
  match d with XH -> z_str n | _ -> z_str n ^ "/" ^ pos_str d

let show cs =
  let cs = if cs = [] then [((Z0, XH), (Z0, XH))] else cs in
  let b = Buffer.create 64 in
  Buffer.add_string b (string_of_int (List.length cs - 1));
  List.iter (fun (r, i) -> Buffer.add_char b ' '; Buffer.add_string b (q_str r);
                           Buffer.add_char b ' '; Buffer.add_string b (q_str i)) cs;
  Buffer.contents b

(* ---- the scanner generated from tokenizer.l *)
let hex_of_chars (cs : char list) : string =
  String.concat "" (List.map (fun c -> Printf.sprintf "%02x" (Char.code c)) cs)
let unhex (s : string) : string =
  String.init (String.length s / 2) (fun i -> Char.chr (int_of_string ("0x" ^ String.sub s (2 * i) 2)))

let raw_line (s : string) : string =
  match raw_tokens_string s with
  | None -> "STUCK"
  | Some rts ->
    let toks = List.filter_map (fun rt -> match rt with
        | RTok (nm, _, text) -> Some (nm ^ ":" ^ hex_of_chars text)
        | RChr c -> Some ("CHR:" ^ hex_of_chars [c])
        | REcho _ -> None
        | RBad w -> Some ("BAD:" ^ w)) rts in
    let echo = String.concat "" (List.filter_map (fun rt -> match rt with REcho t -> Some (hex_of_chars t) | _ -> None) rts) in
    "TOKENS" ^ String.concat "" (List.map (fun x -> " " ^ x) toks) ^ " | ECHO " ^ echo

(* mode "lex": hex-encoded inputs (newlines and bytes >= 128 allowed) ->
     TOKENS <NAME:hex>... | ECHO <hex> | PARSE <OK ...|ERR> | HAND <same|diff> | LIT <ok|diff> <number of literals>
   tokens and echo of the generated scanner, the result of the pipeline over it (run_gen), and whether the
   hand-written scanner model delivers the same token list to the parser (glex = ylex); LIT: for every RATIONAL /
   FLOATING_POINT lexeme, whether the payload of the model equals what the model of the C conversion chain
   (Monomial::Monomial (const char *, long)) computes from the text (literal_consistent) *)
let lex_mode () =
  try
    while true do
      let line = unhex (input_line stdin) in
      let g = match run_gen_string line with None -> "ERR" | Some y -> "OK " ^ show y in
      let hand = if glex line = ylex line then "same" else "diff" in
      let lits = match raw_tokens_string line with
        | None -> []
        | Some rts -> List.filter_map (fun rt -> match rt with
            | RTok (nm, _, text) when nm = "RATIONAL" || nm = "FLOATING_POINT" -> Some text | _ -> None) rts in
      let litok = List.for_all literal_consistent lits in
      print_string (raw_line line); print_string " | PARSE "; print_string g;
      print_string " | HAND "; print_string hand;
      print_string (if litok then " | LIT ok " else " | LIT diff "); print_string (string_of_int (List.length lits)); print_char '\n'
    done
  with End_of_file -> ()

let text_mode () =
  try
    while true do
      let line = input_line stdin in
      let lr = match run_yacc_string line with None -> "ERR" | Some y -> "OK " ^ show y in
      let gen = match run_gen_string line with None -> "ERR" | Some y -> "OK " ^ show y in
      if gen <> lr then (print_string "GENDIFF hand-lexer="; print_string lr; print_string " generated-lexer="; print_string gen; print_char '\n')
      else
      (match run_string line with
       | None ->
         if lr = "ERR" then print_string "ERR\n"
         else (print_string "LRDIFF ref=ERR lr="; print_string lr; print_char '\n')
       | Some (a, f) ->
         let sa = show a and sf = show f in
         if sa <> sf then (print_string "FPDIFF ref="; print_string sa; print_string " formal="; print_string sf; print_char '\n')
         else if lr <> "OK " ^ sa then (print_string "LRDIFF ref=OK "; print_string sa; print_string " lr="; print_string lr; print_char '\n')
         else (print_string "OK "; print_string sa; print_char '\n'))
    done
  with End_of_file -> ()

let () =
  if Array.length Sys.argv > 1 && Sys.argv.(1) = "lex" then lex_mode () else text_mode ()
