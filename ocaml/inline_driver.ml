(* C11 driver: one expression per stdin line ->
     ERR                                   rejected by the model (lexer or reference parser)
     OK <deg> <re0> <im0> <re1> <im1> ...  exact coefficients of [denote], ascending degree
     FPDIFF ...                            the formal-polynomial model (C++ operations as coded)
                                           disagrees with the reference denotation (never expected:
                                           excluded by theorem C11_run_string_consistent)
     LRDIFF ref=... lr=...                 the pipeline as generated (flex token names, bison's table run
                                           by the yacc skeleton model, grammar actions: run_yacc_string)
                                           disagrees with lexer + reference parser + denotation
   Coefficients are printed like GMP prints canonical mpq: "n" or "n/d". *)
open Inline

(* positive -> decimal string without zarith (the shared Makefile links only str,unix):
   little-endian limbs base 10^9, Horner on the bits from the most significant one. *)
let base = 1_000_000_000
let dbl_add (v : int list) (bit : int) : int list =
  let rec go v carry = match v with
    | [] -> if carry = 0 then [] else [carry]
    | x :: r -> let y = 2 * x + carry in (y mod base) :: go r (y / base) in
  go v bit
let rec pos_limbs (p : positive) : int list =
  match p with
  | XH -> [1]
  | XO q -> dbl_add (pos_limbs q) 0
  | XI q -> dbl_add (pos_limbs q) 1
let limbs_str (v : int list) : string =
  match List.rev v with
  | [] -> "0"
  | hd :: tl -> String.concat "" (string_of_int hd :: List.map (Printf.sprintf "%09d") tl)
let pos_str p = limbs_str (pos_limbs p)
let z_str (z : z) = match z with Z0 -> "0" | Zpos p -> pos_str p | Zneg p -> "-" ^ pos_str p

let q_str ((n, d) : z * positive) : string =
  match d with XH -> z_str n | _ -> z_str n ^ "/" ^ pos_str d

let show cs =
  let cs = if cs = [] then [((Z0, XH), (Z0, XH))] else cs in
  let b = Buffer.create 64 in
  Buffer.add_string b (string_of_int (List.length cs - 1));
  List.iter (fun (r, i) -> Buffer.add_char b ' '; Buffer.add_string b (q_str r);
                           Buffer.add_char b ' '; Buffer.add_string b (q_str i)) cs;
  Buffer.contents b

let () =
  try
    while true do
      let line = input_line stdin in
      let lr = match run_yacc_string line with None -> "ERR" | Some y -> "OK " ^ show y in
      (match run_string line with
       | None ->
         if lr = "ERR" then print_string "ERR\n"
         else (print_string "LRDIFF ref=ERR lr="; print_string lr; print_char '\n')
       | Some (a, f) ->
         let sa = show a and sf = show f in
         if sa <> sf then (print_string "FPDIFF ref="; print_string sa; print_string " formal="; print_string sf; print_char '\n')
         else if lr <> "OK " ^ sa then (print_string "LRDIFF ref=OK "; print_string sa; print_string " lr="; print_string lr; print_char '\n')
         else (print_string "OK "; print_string sa; print_char '\n'))
    done
  with End_of_file -> ()
