(* C12 -- line-protocol driver around the extracted DPE model (module Dpe).
   usage: dpe [new|old]        (old = the code before the C12 fix patches)
   stdin : one case per line   "op arg..."   where
             R = "hex16 dec"  (rdpe: mantissa bits, exponent)    D = "hex16"   L = "dec"
             C = four tokens  (re.m re.e im.m im.e)
   stdout: one line per case   R -> "hex16 dec", I -> "dec", D -> "hex16", C -> 4 tokens,
           "OOM" when the case leaves the model (libm call).                       *)
open Dpe

(* ---- conversions between OCaml values and the extracted Z / positive ---- *)
let rec pos_of_int64u (x : int64) : positive =   (* x <> 0, read as unsigned *)
  let hi = Int64.shift_right_logical x 1 in
  let b = Int64.logand x 1L in
  if hi = 0L then XH else if b = 1L then XI (pos_of_int64u hi) else XO (pos_of_int64u hi)
let z_of_int64u (x : int64) : z = if x = 0L then Z0 else Zpos (pos_of_int64u x)
let z_of_int64 (x : int64) : z =
  if x = 0L then Z0 else if Int64.compare x 0L > 0 then Zpos (pos_of_int64u x)
  else Zneg (pos_of_int64u (Int64.neg x))        (* neg min_int = min_int = 2^63 unsigned *)
let rec int64u_of_pos (p : positive) : int64 =
  match p with XH -> 1L | XO q -> Int64.shift_left (int64u_of_pos q) 1
             | XI q -> Int64.logor (Int64.shift_left (int64u_of_pos q) 1) 1L
let string_of_z (v : z) : string =
  match v with Z0 -> "0" | Zpos p -> Printf.sprintf "%Lu" (int64u_of_pos p)
             | Zneg p -> "-" ^ Printf.sprintf "%Lu" (int64u_of_pos p)
let hex_of_z (v : z) : string =
  match v with Z0 -> "0000000000000000" | Zpos p -> Printf.sprintf "%016Lx" (int64u_of_pos p)
             | Zneg _ -> failwith "negative bit pattern"
let z_of_hex (s : string) : z = z_of_int64u (Int64.of_string ("0x" ^ s))
let z_of_dec (s : string) : z =
  if String.length s > 0 && s.[0] = '-' then z_of_int64 (Int64.of_string s)
  else z_of_int64u (Int64.of_string ("0u" ^ s))

let fl s = of_bits (z_of_hex s)
let hx f = hex_of_z (to_bits f)
let rd m e = { mnt = fl m; esp = z_of_dec e }
let cd a b c d = { cre = rd a b; cim = rd c d }
let outr r = hx r.mnt ^ " " ^ string_of_z r.esp
let outc c = outr c.cre ^ " " ^ outr c.cim
let outb b = if b then "1" else "0"

let eval old toks =
  let pick n o = if old then o else n in
  match toks with
  | ["set_d"; d] -> outr (rdpe_set_d (fl d))
  | ["set_2dl"; d; l] -> outr (rdpe_set_2dl (fl d) (z_of_dec l))
  | ["get_d"; m; e] -> hx ((pick rdpe_get_d rdpe_get_d_old) (rd m e))
  | ["neg"; m; e] | ["neg_eq"; m; e] -> outr (rdpe_neg (rd m e))
  | ["abs"; m; e] | ["abs_eq"; m; e] -> outr (rdpe_abs (rd m e))
  | ["inv"; m; e] | ["inv_eq"; m; e] -> outr ((pick rdpe_inv rdpe_inv_old) (rd m e))
  | ["sqr"; m; e] -> outr ((pick rdpe_sqr rdpe_sqr_old) (rd m e))
  | ["sqr_eq"; m; e] -> outr ((pick rdpe_sqr_eq rdpe_sqr_old) (rd m e))
  | ["sqrt"; m; e] | ["sqrt_eq"; m; e] -> outr ((pick rdpe_sqrt rdpe_sqrt_old) (rd m e))
  | ["mul"; a; b; c; d] | ["mul_eq"; a; b; c; d] -> outr ((pick rdpe_mul rdpe_mul_old) (rd a b) (rd c d))
  (* the *_d variants: new = as repaired by fixes/C12_dpe_{mul,div}_d_mantissa_range.patch, old = the code as it is *)
  | ["mul_d"; a; b; d] -> outr ((pick rdpe_mul_d_fix rdpe_mul_d) (rd a b) (fl d))
  | ["mul_eq_d"; a; b; d] -> outr ((pick rdpe_mul_eq_d_fix rdpe_mul_d) (rd a b) (fl d))
  | ["mul_2exp"; a; b; i] | ["mul_eq_2exp"; a; b; i] -> outr ((pick rdpe_mul_2exp rdpe_mul_2exp_old) (rd a b) (z_of_dec i))
  | ["div_2exp"; a; b; i] | ["div_eq_2exp"; a; b; i] -> outr ((pick rdpe_div_2exp rdpe_div_2exp_old) (rd a b) (z_of_dec i))
  | ["div"; a; b; c; d] | ["div_eq"; a; b; c; d] -> outr ((pick rdpe_div rdpe_div_old) (rd a b) (rd c d))
  | ["div_d"; a; b; d] | ["div_eq_d"; a; b; d] -> outr ((pick rdpe_div_d_fix rdpe_div_d) (rd a b) (fl d))
  | ["add"; a; b; c; d] ->
      let x = rd a b and y = rd c d in
      if old && rdpe_add_old_out_of_model x y then "OOM" else outr ((pick rdpe_add rdpe_add_old) x y)
  | ["add_eq"; a; b; c; d] -> outr ((pick rdpe_add_eq rdpe_add_eq_old) (rd a b) (rd c d))
  | ["sub"; a; b; c; d] -> outr ((pick rdpe_sub rdpe_sub_old) (rd a b) (rd c d))
  | ["sub_eq"; a; b; c; d] -> outr ((pick rdpe_sub_eq rdpe_sub_old) (rd a b) (rd c d))
  | ["pow_si"; a; b; i] | ["pow_eq_si"; a; b; i] ->
      (* the code before fixes/C12_pow_si_long_min.patch does not terminate on LONG_MIN: outside the old model *)
      if old && i = "-9223372036854775808" then "OOM"
      else outr ((pick rdpe_pow_si rdpe_pow_si_old) (rd a b) (z_of_dec i))
  | ["cmp"; a; b; c; d] -> string_of_z ((pick rdpe_cmp rdpe_cmp_old) (rd a b) (rd c d))
  | ["sgn"; a; b] -> string_of_z (rdpe_sgn (rd a b))
  | ["eq_zero"; a; b] -> outb (rdpe_eq_zero (rd a b))
  | ["eq"; a; b; c; d] -> outb (rdpe_eq (rd a b) (rd c d))
  | ["ne"; a; b; c; d] -> outb (rdpe_ne (rd a b) (rd c d))
  | ["lt"; a; b; c; d] -> outb ((pick rdpe_lt rdpe_lt_old) (rd a b) (rd c d))
  | ["le"; a; b; c; d] -> outb ((pick rdpe_le rdpe_le_old) (rd a b) (rd c d))
  | ["gt"; a; b; c; d] -> outb ((pick rdpe_gt rdpe_gt_old) (rd a b) (rd c d))
  | ["ge"; a; b; c; d] -> outb ((pick rdpe_ge rdpe_ge_old) (rd a b) (rd c d))
  | ["cmod"; a; b; c; d] -> outr (cdpe_mod (cd a b c d))
  | ["csmod"; a; b; c; d] -> outr (cdpe_smod (cd a b c d))
  | ["cadd"; a; b; c; d; e; f; g; h] ->
      let x = cd a b c d and y = cd e f g h in
      if not old then outc (cdpe_add x y)
      else if rdpe_add_old_out_of_model x.cre y.cre || rdpe_add_old_out_of_model x.cim y.cim then "OOM"
      else outc { cre = rdpe_add_old x.cre y.cre; cim = rdpe_add_old x.cim y.cim }
  | ["csub"; a; b; c; d; e; f; g; h] ->
      let x = cd a b c d and y = cd e f g h in
      if not old then outc (cdpe_sub x y)
      else outc { cre = rdpe_sub_old x.cre y.cre; cim = rdpe_sub_old x.cim y.cim }
  | ["cmul"; a; b; c; d; e; f; g; h] | ["cmul_eq"; a; b; c; d; e; f; g; h] ->
      outc ((pick cdpe_mul cdpe_mul_old) (cd a b c d) (cd e f g h))
  | ["cdiv"; a; b; c; d; e; f; g; h] -> outc ((pick cdpe_div cdpe_div_old) (cd a b c d) (cd e f g h))
  | ["cinv"; a; b; c; d] | ["cinv_eq"; a; b; c; d] -> outc ((pick cdpe_inv cdpe_inv_old) (cd a b c d))
  | ["csqr"; a; b; c; d] -> outc ((pick cdpe_sqr cdpe_sqr_old) (cd a b c d))
  | ["csqr_eq"; a; b; c; d] -> outc ((pick cdpe_sqr_eq cdpe_sqr_eq_old) (cd a b c d))
  | ["cmul_e"; a; b; c; d; m; e] -> outc (cdpe_mul_e (cd a b c d) (rd m e))
  | ["cdiv_e"; a; b; c; d; m; e] -> outc (cdpe_div_e (cd a b c d) (rd m e))
  | ["cmul_2exp"; a; b; c; d; i] | ["cmul_eq_2exp"; a; b; c; d; i] -> outc (cdpe_mul_2exp (cd a b c d) (z_of_dec i))
  | ["cdiv_2exp"; a; b; c; d; i] | ["cdiv_eq_2exp"; a; b; c; d; i] -> outc (cdpe_div_2exp (cd a b c d) (z_of_dec i))
  | ["cmul_d"; a; b; c; d; x] -> outc ((pick cdpe_mul_d_fix cdpe_mul_d) (cd a b c d) (fl x))
  | ["cdiv_d"; a; b; c; d; x] -> outc ((pick cdpe_div_d_fix cdpe_div_d) (cd a b c d) (fl x))
  | ["cpow_si"; a; b; c; d; i] | ["cpow_eq_si"; a; b; c; d; i] ->
      if old && i = "-9223372036854775808" then "OOM"
      else outc ((pick cdpe_pow_si cdpe_pow_si_old) (cd a b c d) (z_of_dec i))
  | ["cset_d"; x; y] -> outc (cdpe_set_d (fl x) (fl y))
  | ["cget_d"; a; b; c; d] | ["cget_x"; a; b; c; d] ->
      let (x, y) = (pick cdpe_get_d cdpe_get_d_old) (cd a b c d) in hx x ^ " " ^ hx y
  (* remaining public functions: aliases, accessors, structural operations *)
  | ["d"; d] -> outr (rdpe_set_d (fl d))
  | ["2dl"; d; l] -> outr (rdpe_set_2dl (fl d) (z_of_dec l))
  | ["get_2dl"; m; e] | ["set"; m; e] -> outr (rd m e)
  | ["clear"; _; _] -> outr rdpe_zero
  | ["swap"; a; b; c; d] -> outr (rd c d) ^ " " ^ outr (rd a b)
  | ["add_d"; a; b; d] -> outr (rdpe_add_d (rd a b) (fl d))
  | ["sub_d"; a; b; d] -> outr (rdpe_sub_d (rd a b) (fl d))
  | ["add_eq_d"; a; b; d] -> outr (rdpe_add_eq_d (rd a b) (fl d))
  | ["sub_eq_d"; a; b; d] -> outr (rdpe_sub_eq_d (rd a b) (fl d))
  | ["cd"; x; y] | ["cx"; x; y] | ["cset_x"; x; y] -> outc (cdpe_set_d (fl x) (fl y))
  | ["ce"; a; b; c; d] | ["cset_e"; a; b; c; d] | ["cget_e"; a; b; c; d] | ["cset"; a; b; c; d] -> outc (cd a b c d)
  | ["cclear"; _; _; _; _] -> outc { cre = rdpe_zero; cim = rdpe_zero }
  | ["cswap"; _; _; _; _; e; f; g; h] -> outc (cd e f g h)
  | ["c2dl"; a; b; c; d] | ["cset_2dl"; a; b; c; d] -> outc (cdpe_set_2dl (fl a) (z_of_dec b) (fl c) (z_of_dec d))
  | ["cneg"; a; b; c; d] | ["cneg_eq"; a; b; c; d] -> outc (cdpe_neg (cd a b c d))
  | ["ccon"; a; b; c; d] | ["ccon_eq"; a; b; c; d] -> outc (cdpe_con (cd a b c d))
  | ["crot"; a; b; c; d] | ["crot_eq"; a; b; c; d] -> outc (cdpe_rot (cd a b c d))
  | ["cflip"; a; b; c; d] | ["cflip_eq"; a; b; c; d] -> outc (cdpe_flip (cd a b c d))
  | ["cadd_eq"; a; b; c; d; e; f; g; h] -> outc (cdpe_add_eq (cd a b c d) (cd e f g h))
  | ["csub_eq"; a; b; c; d; e; f; g; h] -> outc (cdpe_sub_eq (cd a b c d) (cd e f g h))
  | ["cdiv_eq"; a; b; c; d; e; f; g; h] -> outc ((pick cdpe_div_eq cdpe_div_eq_old) (cd a b c d) (cd e f g h))
  | ["cmul_eq_e"; a; b; c; d; m; e] -> outc (cdpe_mul_e (cd a b c d) (rd m e))
  | ["cdiv_eq_e"; a; b; c; d; m; e] -> outc (cdpe_div_e (cd a b c d) (rd m e))
  | ["cmul_eq_d"; a; b; c; d; x] -> outc ((pick cdpe_mul_d_fix cdpe_mul_d) (cd a b c d) (fl x))
  | ["cdiv_eq_d"; a; b; c; d; x] -> outc ((pick cdpe_div_d_fix cdpe_div_d) (cd a b c d) (fl x))
  | ["cmul_x"; a; b; c; d; x; y] | ["cmul_eq_x"; a; b; c; d; x; y] -> outc ((pick cdpe_mul_x_fix cdpe_mul_x) (cd a b c d) (fl x) (fl y))
  | ["ceq_zero"; a; b; c; d] -> outb (cdpe_eq_zero (cd a b c d))
  | ["ceq"; a; b; c; d; e; f; g; h] -> outb (cdpe_eq (cd a b c d) (cd e f g h))
  | ["cne"; a; b; c; d; e; f; g; h] -> outb (cdpe_ne (cd a b c d) (cd e f g h))
  | _ -> "ERR"

let () =
  let old = Array.length Sys.argv > 1 && Sys.argv.(1) = "old" in
  let buf = Buffer.create 65536 in
  (try
     while true do
       let line = input_line stdin in
       let toks = List.filter (fun s -> s <> "") (String.split_on_char ' ' (String.trim line)) in
       if toks <> [] then begin
         Buffer.add_string buf (try eval old toks with Failure m -> "ERR " ^ m);
         Buffer.add_char buf '\n';
         if Buffer.length buf > 60000 then (print_string (Buffer.contents buf); Buffer.clear buf)
       end
     done
   with End_of_file -> ());
  print_string (Buffer.contents buf)
