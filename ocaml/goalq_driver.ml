(* line protocol for the C02 predicates (coq/Goal/GoalModel.v); zarith only for decimal -> bits.
     T                                         -> "APPROX b0..b7 COMPUTED b0..b7"   (the two status tables)
     R goal over_max exempt d n (st re im rad)*n   goal: i|a|c ; over_max/exempt: 0|1 ; d integer ; numbers "num/den"
        -> "<run_ok> <goal_clause> <honest_clause> <disjoint_clause> G:<i,..> H:<i,..> O:<i-j,..>"
           G: roots failing the goal clause, H: roots reported approximated that miss the bound,
           O: overlapping pairs among the reported roots (all computed by the extracted functions)
     A d re im rad                             -> approx_ok as 0/1
     M variant track csize old within          -> "<modify_status> <modify_status_fixed>"   variant f|d|m *)
module BZ = Z
open Goalq
let rec pos_of_z (n : BZ.t) : positive =
  if BZ.equal n BZ.one then XH
  else if BZ.testbit n 0 then XI (pos_of_z (BZ.shift_right n 1)) else XO (pos_of_z (BZ.shift_right n 1))
let z_of_z (n : BZ.t) : z = if BZ.sign n = 0 then Z0 else if BZ.sign n > 0 then Zpos (pos_of_z n) else Zneg (pos_of_z (BZ.neg n))
let q_of s = match String.split_on_char '/' s with
  | [n; d] -> { qnum = z_of_z (BZ.of_string n); qden = pos_of_z (BZ.of_string d) }
  | [n] -> { qnum = z_of_z (BZ.of_string n); qden = XH }
  | _ -> failwith "bad rational"
let rec nat_of_int n = if n <= 0 then O else S (nat_of_int (n - 1))
let rec int_of_nat = function O -> 0 | S n -> 1 + int_of_nat n
let b x = if x then "1" else "0"
let bi s = s = "1"
let goal_of = function "i" -> GIsolate | "a" -> GApproximate | "c" -> GCount | _ -> failwith "bad goal"
let rec take_roots n toks = if n = 0 then [] else match toks with
  | s :: re :: im :: r :: rest -> { st = nat_of_int (int_of_string s); zre = q_of re; zim = q_of im; zrad = q_of r } :: take_roots (n - 1) rest
  | _ -> failwith "short line"
let () =
  try while true do
    let l = input_line stdin in
    (try match List.filter (fun x -> x <> "") (String.split_on_char ' ' (String.trim l)) with
    | ["T"] ->
      print_endline ("APPROX " ^ String.concat " " (List.map b table_of_approximated_roots) ^ " COMPUTED " ^ String.concat " " (List.map b table_of_computed_roots))
    | "R" :: g :: om :: ex :: d :: n :: rest ->
      let g = goal_of g and om = bi om and ex = bi ex and d = z_of_z (BZ.of_string d) in
      let rs = take_roots (int_of_string n) rest in
      (* the verdict is the extracted run_ok; only a rejected run is analysed further (by the extracted per-root / per-pair functions) *)
      if run_ok g om ex d rs then print_endline "1 1 1 1 G: H: O:" else begin
      let arr = Array.of_list rs in
      let gfail = ref [] and hfail = ref [] and ov = ref [] in
      Array.iteri (fun i r ->
        if not (goal_clause g om ex d [r]) then gfail := string_of_int i :: !gfail;
        if not (honest d r) then hfail := string_of_int i :: !hfail) arr;
      Array.iteri (fun i ri -> Array.iteri (fun j rj ->
          if i < j && is_computed ri.st && is_computed rj.st && not (disjoint (disc_of ri) (disc_of rj)) then
            ov := (string_of_int i ^ "-" ^ string_of_int j) :: !ov) arr) arr;
      print_endline ("0 " ^ b (!gfail = []) ^ " " ^ b (!hfail = []) ^ " " ^ b (!ov = [])
                     ^ " G:" ^ String.concat "," (List.rev !gfail) ^ " H:" ^ String.concat "," (List.rev !hfail) ^ " O:" ^ String.concat "," (List.rev !ov))
      end
    | ["A"; d; re; im; r] -> print_endline (b (approx_ok (z_of_z (BZ.of_string d)) (q_of re) (q_of im) (q_of r)))
    | ["M"; v; tr; cs; old; w] ->
      let v = (match v with "f" -> VFloat | "d" -> VDpe | "m" -> VMp | _ -> failwith "bad variant") in
      let a1 = modify_status v (bi tr) (nat_of_int (int_of_string cs)) (nat_of_int (int_of_string old)) (bi w)
      and a2 = modify_status_fixed v (bi tr) (nat_of_int (int_of_string cs)) (nat_of_int (int_of_string old)) (bi w) in
      print_endline (string_of_int (int_of_nat a1) ^ " " ^ string_of_int (int_of_nat a2))
    | [] -> ()
    | _ -> print_endline "BADLINE"
    with Failure m -> print_endline ("BADLINE " ^ m) | Invalid_argument m -> print_endline ("BADLINE " ^ m))
  done with End_of_file -> ()
