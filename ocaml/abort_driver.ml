(* abort_driver.ml -- C18: replays the observed program points of a real secular solve (harness/c18_sched.c, converted by
   checks/C18.py) through the extracted transition system Abort.step (coq/Ctx/AbortModel.v).

   stdin, blocks:
       cfg <k> <secular 0|1> <jacobi 0|1> <avoid_mp 0|1> <crude 0|1> <goal_approx 0|1>
       a                              the abort request (mps_context_abort)
       d poll <label> <v>             driver read of exit_required (label: 78 409 465 515 535 549 595 623), value read
       d packet | d regen | d join | d copy
       w <i> poll <v>                 worker (task) i: read at the head of its loop
       w <i> next <go 0|1> <j>        job_queue_next handed out root j; go = the worker goes on to lock roots_mutex[j]
       w <i> lock <j>
       w <i> crit <j> <newton 0|1> <exit 0|1>     locked region done; exit = the worker leaves its loop after it
       end <err 0|1>                  the solve has returned; error flag observed
   stdout, one line per block:
       ok steps=<model steps> silent=<unobserved driver steps> after_steps=<solver steps after the abort> after_newton= after_packets=
          after_regens= rank_at_abort=<rank c s> bound=<5k+7> pre_improve=<0|1> err=<errk> copied=<0|1>
       reject pos=<index of the first event no model run can produce> event=<text> pc=<driver pc> [why]

   Observed events are matched one to one with model steps of the same thread; the oracle value of a worker step is determined
   by the event, the oracle value of a driver step and the unobserved driver steps (EvStep / EvError / EvImprove: no hook in the
   real code) are searched (depth first, failures memoised on (position, state)). *)
module A = Abort

let rec nat_of_int n = if n <= 0 then A.O else A.S (nat_of_int (n - 1))
let rec int_of_nat = function A.O -> 0 | A.S n -> 1 + int_of_nat n

type obs =
  | OAbort
  | ODPoll of int * bool
  | ODPacket | ODRegen | ODJoin | ODCopy
  | OWPoll of int * bool
  | OWNext of int * bool * int
  | OWLock of int * int
  | OWCrit of int * int * bool * bool

let obs_text = function
  | OAbort -> "a"
  | ODPoll (l, v) -> Printf.sprintf "d poll %d %d" l (if v then 1 else 0)
  | ODPacket -> "d packet" | ODRegen -> "d regen" | ODJoin -> "d join" | ODCopy -> "d copy"
  | OWPoll (i, v) -> Printf.sprintf "w %d poll %d" i (if v then 1 else 0)
  | OWNext (i, g, j) -> Printf.sprintf "w %d next %d %d" i (if g then 1 else 0) j
  | OWLock (i, j) -> Printf.sprintf "w %d lock %d" i j
  | OWCrit (i, j, n, e) -> Printf.sprintf "w %d crit %d %d %d" i j (if n then 1 else 0) (if e then 1 else 0)

let pc_name (p : A.dpc) = match p with
  | A.DStart -> "DStart" | A.DPrelim1 -> "DPrelim1" | A.DPrelim2 -> "DPrelim2" | A.DPrelimPost -> "DPrelimPost" | A.DPrelimCS -> "DPrelimCS"
  | A.DPrelimRegen -> "DPrelimRegen" | A.DPrelimRegen2 -> "DPrelimRegen2" | A.DStartPts -> "DStartPts" | A.DPoll409 -> "DPoll409"
  | A.DLoop -> "DLoop" | A.DWait1 -> "DWait1" | A.DLoop2 -> "DLoop2" | A.DWait2 -> "DWait2" | A.DPoll465 -> "DPoll465" | A.DMaxPack -> "DMaxPack"
  | A.DCheckA -> "DCheckA" | A.DBest -> "DBest" | A.DPoll515 -> "DPoll515" | A.DRegenB -> "DRegenB" | A.DPoll535 -> "DPoll535"
  | A.DPoll549 -> "DPoll549" | A.DRegenC -> "DRegenC" | A.DRegenC2 -> "DRegenC2" | A.DPoll595 -> "DPoll595" | A.DWhile -> "DWhile"
  | A.DCleanup -> "DCleanup" | A.DPoll623 -> "DPoll623" | A.DImprove -> "DImprove" | A.DUpdate -> "DUpdate" | A.DRet -> "DRet"
let err_name = function A.ENone -> "none" | A.EExit -> "exit" | A.EMaxPack -> "maxpack" | A.ERegen -> "regen" | A.EOther -> "other"

let silent (e : A.event) = match e with A.EvStep _ | A.EvError _ | A.EvImprove -> true | _ -> false

(* does the model event correspond to the observation? *)
let matches (o : obs) (e : A.event) = match o, e with
  | OAbort, A.EvAbort -> true
  | ODPoll (l, v), A.EvPoll (l', v') -> l = int_of_nat l' && v = v'
  | ODPacket, A.EvPacket _ -> true
  | ODRegen, A.EvRegen _ -> true
  | ODJoin, A.EvJoin _ -> true
  | ODCopy, A.EvCopy -> true
  | OWPoll (_, v), A.EvPoll (l', v') -> int_of_nat l' = 29 && v = v'
  | OWNext (_, g, _), A.EvNext g' -> g = g'
  | OWLock (_, j), A.EvLock j' -> j = int_of_nat j'
  | OWCrit (_, j, n, _), A.EvCrit (j', n') -> j = int_of_nat j' && n = n'
  | _ -> false

type res = Ok of (A.tid * A.event * A.state) list | Fail

let replay (c : A.config) (evs : obs array) (err_final : bool) =
  let n = Array.length evs in
  let failed : (int * A.state, unit) Hashtbl.t = Hashtbl.create 1024 in
  let deepest = ref 0 and deepest_pc = ref A.DStart in
  let orcs = [A.O; A.S A.O; A.S (A.S A.O); A.S (A.S (A.S A.O))] in
  let dsucc s =   (* distinct driver successors *)
    List.fold_left (fun acc o -> match A.step c s A.TDriver o with
        | Some (s', e) -> if List.exists (fun (s2, e2) -> s2 = s' && e2 = e) acc then acc else (s', e) :: acc
        | None -> acc) [] orcs |> List.rev in
  let rec go (s : A.state) (i : int) : res =
    if Hashtbl.mem failed (i, s) then Fail else begin
      Hashtbl.add failed (i, s) ();     (* also cuts cycles of unobserved steps (DImprove) *)
      if i > !deepest then (deepest := i; deepest_pc := s.A.pc);
      if i = n then finish s
      else
        let o = evs.(i) in
        match o with
        | OAbort -> (match A.step c s A.TAbort A.O with
            | Some (s', e) -> (match go s' (i + 1) with Ok l -> Ok ((A.TAbort, e, s) :: l) | Fail -> Fail)
            | None -> Fail)
        | OWPoll (w, _) | OWNext (w, _, _) | OWLock (w, _) | OWCrit (w, _, _, _) ->
            let orc = match o with
              | OWNext (_, g, j) -> if g then nat_of_int (j + 1) else A.O
              | OWCrit (_, _, nw, ex) -> nat_of_int (match nw, ex with false, true -> 0 | false, false -> 1 | true, true -> 2 | true, false -> 3)
              | _ -> A.O in
            let t = A.TWorker (nat_of_int w) in
            (match A.step c s t orc with
             | Some (s', e) when matches o e -> (match go s' (i + 1) with Ok l -> Ok ((t, e, s) :: l) | Fail -> Fail)
             | _ -> Fail)
        | _ ->
            let succ = dsucc s in
            let rec try_list = function
              | [] -> Fail
              | (s', e) :: r ->
                  let res = if matches o e then go s' (i + 1) else if silent e then go s' i else Fail in
                  (match res with Ok l -> Ok ((A.TDriver, e, s) :: l) | Fail -> try_list r) in
            try_list succ
    end
  and finish (s : A.state) : res =
    if A.terminated s then (if (s.A.err <> A.ENone) = err_final then Ok [(A.TDriver, A.EvStep A.DRet, s)] else Fail)
    else
      let rec try_list = function
        | [] -> Fail
        | (s', e) :: r -> if silent e then (match go s' n with Ok l -> Ok ((A.TDriver, e, s) :: l) | Fail -> try_list r) else try_list r in
      try_list (dsucc s) in
  let r = go (A.init c) 0 in       (* (tuple components are evaluated right to left) *)
  (r, !deepest, !deepest_pc)

let () =
  let cfg = ref None and evs = ref [] in
  let b x = x <> "0" in
  (try while true do
      let line = input_line stdin in
      let f = Array.of_list (List.filter (fun x -> x <> "") (String.split_on_char ' ' (String.trim line))) in
      if Array.length f = 0 then ()
      else match f.(0) with
        | "cfg" -> cfg := Some { A.nthreads = nat_of_int (int_of_string f.(1)); A.secular_input = b f.(2); A.jacobi = b f.(3);
                                 A.avoid_mp = b f.(4); A.crude = b f.(5); A.goal_approx = b f.(6) }; evs := []
        | "a" -> evs := OAbort :: !evs
        | "d" -> evs := (match f.(1) with
            | "poll" -> ODPoll (int_of_string f.(2), b f.(3)) | "packet" -> ODPacket | "regen" -> ODRegen | "join" -> ODJoin
            | "copy" -> ODCopy | x -> failwith ("bad driver event " ^ x)) :: !evs
        | "w" -> let i = int_of_string f.(1) in
            evs := (match f.(2) with
                | "poll" -> OWPoll (i, b f.(3)) | "next" -> OWNext (i, b f.(3), int_of_string f.(4)) | "lock" -> OWLock (i, int_of_string f.(3))
                | "crit" -> OWCrit (i, int_of_string f.(3), b f.(4), b f.(5)) | x -> failwith ("bad worker event " ^ x)) :: !evs
        | "end" ->
            let c = match !cfg with Some c -> c | None -> failwith "end without cfg" in
            let arr = Array.of_list (List.rev !evs) in
            let k = int_of_nat c.A.nthreads in
            (match replay c arr (b f.(1)) with
             | Ok path, _, _ ->
                 (* path: (thread, event, state BEFORE the step); the last entry is the terminated state *)
                 let steps = List.length path - 1 in
                 let sil = List.length (List.filter (fun (t, e, _) -> t = A.TDriver && silent e) path) - 1 in
                 let rec after seen = function
                   | [] -> (0, 0, 0, 0, -1, -1)
                   | (t, e, s) :: r when not seen && t = A.TAbort ->
                       let (a, nw, pk, rg, _, _) = after true r in
                       (* state after the abort step = state before + flag; the rank does not depend on the flag *)
                       (a, nw, pk, rg, int_of_nat (A.rank c s), (if s.A.pc = A.DImprove || s.A.pc = A.DUpdate || s.A.pc = A.DRet then 0 else 1))
                   | (t, e, s) :: r ->
                       let (a, nw, pk, rg, rk, pi) = after seen r in
                       if seen && r <> [] && A.solver t
                       then (a + 1, nw + (if A.is_newton e then 1 else 0), pk + (if A.is_packet e then 1 else 0), rg + (if A.is_regen e then 1 else 0), rk, pi)
                       else (a, nw, pk, rg, rk, pi) in
                 let (a, nw, pk, rg, rk, pi) = after false path in
                 let (_, _, last) = List.nth path (List.length path - 1) in
                 Printf.printf "ok steps=%d silent=%d after_steps=%d after_newton=%d after_packets=%d after_regens=%d rank_at_abort=%d bound=%d pre_improve=%d err=%s copied=%d\n"
                   steps sil a nw pk rg rk (5 * k + 7) pi (err_name last.A.err) (if last.A.copied then 1 else 0)
             | Fail, d, pc ->
                 Printf.printf "reject pos=%d event=%s pc=%s n=%d\n" d (if d < Array.length arr then String.concat "_" (String.split_on_char ' ' (obs_text arr.(d))) else "end") (pc_name pc) (Array.length arr));
            cfg := None; evs := []
        | x -> failwith ("bad line " ^ x)
    done with End_of_file -> ());
  flush stdout
