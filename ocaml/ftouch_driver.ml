(* C07 -- line-protocol driver around the extracted binary64 model of mps_ftouchnwt (module Ftouch).
   stdin : <id> <n> <ri> <rj> <xi> <yi> <xj> <yj>     n decimal int, the six doubles as 16 hex digits (IEEE bits)
   stdout: <id> t=<touch(i,j)><touch(j,i)> mod=<hex> lhs=<hex> guard=<hex>
           (mod = cplx_mod (z_i - z_j), lhs = n * (r_i + r_j), guard = DBL_MAX / (2 n); NaN printed as 7ff8000000000000)
   zarith is used for hex I/O only. *)
module BZ = Z
open Ftouch

let rec pos_of_zarith (x : BZ.t) : positive =
  if BZ.equal x BZ.one then XH
  else if BZ.testbit x 0 then XI (pos_of_zarith (BZ.shift_right x 1)) else XO (pos_of_zarith (BZ.shift_right x 1))
let z_of_zarith (v : BZ.t) : z =
  if BZ.sign v = 0 then Z0 else if BZ.sign v > 0 then Zpos (pos_of_zarith v) else Zneg (pos_of_zarith (BZ.neg v))
let rec zarith_of_pos = function
  | XH -> BZ.one
  | XO p -> BZ.shift_left (zarith_of_pos p) 1
  | XI p -> BZ.succ (BZ.shift_left (zarith_of_pos p) 1)
let zarith_of_z = function Z0 -> BZ.zero | Zpos p -> zarith_of_pos p | Zneg p -> BZ.neg (zarith_of_pos p)
let hex_in (s : string) : z = z_of_zarith (BZ.of_string_base 16 s)
let hex_out (v : z) : string = BZ.format "%016x" (zarith_of_z v)
let cb b = if b then '1' else '0'

let () =
  try
    while true do
      let line = input_line stdin in
      match String.split_on_char ' ' (String.trim line) with
      | [id; n; ri; rj; xi; yi; xj; yj] ->
        let ((a, b), (m, (l, g))) =
          ftouch_line (z_of_zarith (BZ.of_string n)) (hex_in ri) (hex_in rj) (hex_in xi) (hex_in yi) (hex_in xj) (hex_in yj) in
        Printf.printf "%s t=%c%c mod=%s lhs=%s guard=%s\n" id (cb a) (cb b) (hex_out m) (hex_out l) (hex_out g)
      | [""] | [] -> ()
      | id :: _ -> Printf.printf "%s ERROR bad line\n" id
    done
  with End_of_file -> ()
