(* C13 -- line-protocol driver around the extracted conversion model (module Link, Mpc/LinkModel.v).
   zarith only for number I/O (hex/decimal <-> the extracted Z).
   stdin, one case per line (F = "prec size exp hexlimbs" : _mp_prec, _mp_size, _mp_exp, limbs as one hex integer;
                             B = 16 hex digits of an IEEE double; L = decimal long):
     get_rdpe F | get_rdpe_fixed F | get_2dl F | get_2dl_fixed F | size_2 F | get_d F | get_d_2exp F
     set_rdpe prec B L | set_2dl prec B L | set_2dl_fixed prec B L | set_d prec B | rdpe_set_d B | rdpe_set_2dl B L
     get_cdpe F F | set_cdpe prec B L B L | get_cplx F F | set_cplx prec B B
     mul_2exp F L | div_2exp F L | roundtrip prec B
   stdout: "OK ..." or "UB <kind>" ; F printed as "size exp hexlimbs" ; rdpe as "B L" ; source writes as "W v1 v2" *)
module BZ = Z
open Link
let rec pos_of_z (n : BZ.t) : positive =
  if BZ.equal n BZ.one then XH
  else if BZ.testbit n 0 then XI (pos_of_z (BZ.shift_right n 1)) else XO (pos_of_z (BZ.shift_right n 1))
let z_of_z (n : BZ.t) : z = if BZ.sign n = 0 then Z0 else if BZ.sign n > 0 then Zpos (pos_of_z n) else Zneg (pos_of_z (BZ.neg n))
let rec z_of_pos (p : positive) : BZ.t =
  match p with XH -> BZ.one | XO q -> BZ.shift_left (z_of_pos q) 1 | XI q -> BZ.succ (BZ.shift_left (z_of_pos q) 1)
let bz (v : z) : BZ.t = match v with Z0 -> BZ.zero | Zpos p -> z_of_pos p | Zneg p -> BZ.neg (z_of_pos p)
let dec s = z_of_z (BZ.of_string s)
let hex s = z_of_z (BZ.of_string_base 16 s)
let sdec v = BZ.to_string (bz v)
let shex v = BZ.format "%x" (bz v)
let sbits v = let s = shex v in String.make (max 0 (16 - String.length s)) '0' ^ s
let ubname = function UbMul -> "mul" | UbAdd -> "add" | UbNeg -> "neg" | UbGmp -> "gmp" | UbNanInf -> "naninf"
let mpf p s e d = { m_prec = dec p; m_size = dec s; m_exp = dec e; m_d = hex d }
let sf f = Printf.sprintf "%s %s %s" (sdec f.m_size) (sdec f.m_exp) (shex f.m_d)
let sd d = sbits (bits_of_dbl d)
let sr (m, e) = sd m ^ " " ^ sdec e
let sw l = "W " ^ String.concat " " (List.map sdec l)
let out f = function Ok a -> "OK " ^ f a | UB u -> "UB " ^ ubname u
let db b = dbl_of_bits (hex b)
let eval toks =
  match toks with
  | ["get_rdpe"; p; s; e; d] -> out (fun ((r, f), w) -> sr r ^ " | " ^ sf f ^ " | " ^ sw w) (mpf_get_rdpe (mpf p s e d))
  | ["get_rdpe_fixed"; p; s; e; d] -> out sr (mpf_get_rdpe_fixed (mpf p s e d))
  | ["get_2dl"; p; s; e; d] -> out (fun (((x, l), f), w) -> sd x ^ " " ^ sdec l ^ " | " ^ sf f ^ " | " ^ sw w) (mpf_get_2dl (mpf p s e d))
  | ["get_2dl_fixed"; p; s; e; d] | ["get_d_2exp"; p; s; e; d] -> out (fun (x, l) -> sd x ^ " " ^ sdec l) (mpf_get_2dl_fixed (mpf p s e d))
  | ["size_2"; p; s; e; d] -> out sdec (mpf_size_2 (mpf p s e d))
  | ["get_d"; p; s; e; d] -> out sd (mpf_get_d (mpf p s e d))
  | ["set_rdpe"; p; b; l] -> out sf (mpf_set_rdpe (dec p) (db b, dec l))
  | ["set_2dl"; p; b; l] -> out sf (mpf_set_2dl (dec p) (db b) (dec l))
  | ["set_2dl_fixed"; p; b; l] | ["set_rdpe_fixed"; p; b; l] -> out sf (mpf_set_2dl_fixed (dec p) (db b) (dec l))
  | ["get_cdpe"; p1; s1; e1; d1; p2; s2; e2; d2] ->
      out (fun (((r1, r2), (f1, f2)), w) -> sr r1 ^ " " ^ sr r2 ^ " | " ^ sf f1 ^ " | " ^ sf f2 ^ " | " ^ sw w)
        (mpc_get_cdpe (mpf p1 s1 e1 d1, mpf p2 s2 e2 d2))
  | ["set_cdpe"; p; b1; l1; b2; l2] -> out (fun (f1, f2) -> sf f1 ^ " | " ^ sf f2) (mpc_set_cdpe (dec p) ((db b1, dec l1), (db b2, dec l2)))
  | ["get_cplx"; p1; s1; e1; d1; p2; s2; e2; d2] -> out (fun (x, y) -> sd x ^ " " ^ sd y) (mpc_get_cplx (mpf p1 s1 e1 d1, mpf p2 s2 e2 d2))
  | ["set_cplx"; p; b1; b2] -> out (fun (f1, f2) -> sf f1 ^ " | " ^ sf f2) (mpc_set_cplx (dec p) (db b1, db b2))
  | ["set_d"; p; b] -> out sf (mpf_set_d (dec p) (db b))
  | ["rdpe_set_d"; b] -> "OK " ^ sr (rdpe_set_d (db b))
  | ["rdpe_set_2dl"; b; l] -> "OK " ^ sr (rdpe_set_2dl (db b) (dec l))
  | ["mul_2exp"; p; s; e; d; k] -> "OK " ^ sf (mpf_mul_2exp (mpf p s e d) (dec k))
  | ["div_2exp"; p; s; e; d; k] -> "OK " ^ sf (mpf_div_2exp (mpf p s e d) (dec k))
  | ["roundtrip"; p; b] ->
      (* double -> DPE -> mpf -> DPE *)
      let r = rdpe_set_d (db b) in
      (match mpf_set_rdpe (dec p) r with
       | UB u -> "UB " ^ ubname u
       | Ok f -> out (fun ((r', _), _) -> sr r ^ " | " ^ sf f ^ " | " ^ sr r') (mpf_get_rdpe f))
  | ["wf"; p; s; e; d] -> if wf_mpf (mpf p s e d) then "OK 1" else "OK 0"
  | _ -> "ERR bad line"
let () =
  try
    while true do
      let line = input_line stdin in
      let toks = List.filter (fun s -> s <> "") (String.split_on_char ' ' (String.trim line)) in
      if toks <> [] then print_endline (try eval toks with e -> "ERR " ^ Printexc.to_string e)
    done
  with End_of_file -> ()
