(* C04 -- line-protocol driver around the extracted coded Newton primitives (module Newtonfl).
   H = 16 hex digits (IEEE binary64 pattern), E = decimal exponent (long), rdpe = "H E", cdpe = "H E H E".
   stdin, one case per line:
     F n  c0re c0im ... cnre cnim  m0 ... mn  zre zim                      (all H)
         -> "branch pre pim p1re p1im ap absp again corrre corrim rad"
     D n  (n+1) cdpe coefficients  (n+1) rdpe moduli  z:cdpe  r0:rdpe
         -> "p:cdpe p1:cdpe ap:rdpe absp:rdpe again corr:cdpe rad:rdpe"
     M n wp2  (n+1) rdpe moduli  z:cdpe  r0:rdpe  p:cdpe  p1:cdpe            (wp2 = 2 - wp)
         -> same layout as D
     T mhex e      mantissa (optionally signed hexadecimal integer, any size) and binary exponent
         -> rdpe of the value truncated to 53 bits (mpf_get_rdpe)                                   *)
module ZA = Z   (* zarith, before the extracted module's own Z shadows it *)
open Newtonfl

let rec pos_of_z (x : ZA.t) : positive =
  if ZA.equal x ZA.one then XH
  else if ZA.testbit x 0 then XI (pos_of_z (ZA.shift_right x 1)) else XO (pos_of_z (ZA.shift_right x 1))
let z_of_zt (x : ZA.t) : z = if ZA.sign x = 0 then Z0 else if ZA.sign x > 0 then Zpos (pos_of_z x) else Zneg (pos_of_z (ZA.neg x))
let rec zt_of_pos (p : positive) : ZA.t =
  match p with XH -> ZA.one | XO q -> ZA.shift_left (zt_of_pos q) 1 | XI q -> ZA.succ (ZA.shift_left (zt_of_pos q) 1)
let zt_of_z (v : z) : ZA.t = match v with Z0 -> ZA.zero | Zpos p -> zt_of_pos p | Zneg p -> ZA.neg (zt_of_pos p)
let z_of_hex (s : string) : z =
  if String.length s > 0 && s.[0] = '-' then z_of_zt (ZA.neg (ZA.of_string_base 16 (String.sub s 1 (String.length s - 1))))
  else z_of_zt (ZA.of_string_base 16 s)
let z_of_dec (s : string) : z = z_of_zt (ZA.of_string s)
let hex_of_z (v : z) : string = ZA.format "%016x" (zt_of_z v)
let dec_of_z (v : z) : string = ZA.to_string (zt_of_z v)
let rec nat_of_int (n : int) : nat = if n <= 0 then O else S (nat_of_int (n - 1))

let outb b = if b then "1" else "0"
let outf (a, b) = hex_of_z a ^ " " ^ hex_of_z b
let outr (m, e) = hex_of_z m ^ " " ^ dec_of_z e
let outc (a, b) = outr a ^ " " ^ outr b

(* token stream helpers *)
let take_h toks = match !toks with t :: r -> toks := r; z_of_hex t | [] -> failwith "short line"
let take_e toks = match !toks with t :: r -> toks := r; z_of_dec t | [] -> failwith "short line"
let take_r toks = let m = take_h toks in let e = take_e toks in (m, e)
let take_c toks = let a = take_r toks in let b = take_r toks in (a, b)
let rec times k f = if k <= 0 then [] else let x = f () in x :: times (k - 1) f

let outd (((((((p, p1), ap), absp), again), corr), rad)) =
  String.concat " " [outc p; outc p1; outr ap; outr absp; outb again; outc corr; outr rad]

let eval toks0 =
  match toks0 with
  | "F" :: ns :: rest ->
      let n = int_of_string ns in
      let toks = ref rest in
      let cs = times (n + 1) (fun () -> let a = take_h toks in let b = take_h toks in (a, b)) in
      let ms = times (n + 1) (fun () -> take_h toks) in
      let zr = take_h toks in let zi = take_h toks in
      let nn = nat_of_int n in
      let br = fnewton_branch nn cs ms (zr, zi) in
      let (((((((p, p1), ap), absp), again), corr), rad)) = fnewton_bits nn cs ms (zr, zi) in
      String.concat " " [dec_of_z br; outf p; outf p1; hex_of_z ap; hex_of_z absp; outb again; outf corr; hex_of_z rad]
  | "D" :: ns :: rest ->
      let n = int_of_string ns in
      let toks = ref rest in
      let cs = times (n + 1) (fun () -> take_c toks) in
      let ms = times (n + 1) (fun () -> take_r toks) in
      let z = take_c toks in let r0 = take_r toks in
      outd (dnewton_bits (nat_of_int n) cs ms z r0)
  | "M" :: ns :: wp2 :: rest ->
      let n = int_of_string ns in
      let toks = ref rest in
      let ms = times (n + 1) (fun () -> take_r toks) in
      let z = take_c toks in let r0 = take_r toks in
      let p = take_c toks in let p1 = take_c toks in
      outd (mnewton_tail_bits (nat_of_int n) ms z (z_of_dec wp2) r0 p p1)
  | ["T"; m; e] -> outr (rdpe_of_dyadic_bits (z_of_hex m) (z_of_dec e))
  | _ -> "ERR"

let () =
  let buf = Buffer.create 65536 in
  (try
     while true do
       let line = input_line stdin in
       let toks = List.filter (fun s -> s <> "") (String.split_on_char ' ' (String.trim line)) in
       if toks <> [] then begin
         Buffer.add_string buf (try eval toks with Failure m -> "ERR " ^ m | Invalid_argument m -> "ERR " ^ m);
         Buffer.add_char buf '\n';
         if Buffer.length buf > 60000 then (print_string (Buffer.contents buf); Buffer.clear buf)
       end
     done
   with End_of_file -> ());
  print_string (Buffer.contents buf)
