(* line protocol for the C02 control-flow model (coq/Goal/StopModel.v); hand written, zarith only for integer I/O.
   roots are written  st inc none  (three integers per root)
     U goal mult props n (st inc none)*n                         -> check_stop as 0/1           goal: i|a|c
     S exit_required phase n st*n                                -> sec_check_stop as 0/1        phase: 0 no,1 float,2 dpe,3 mp
     M variant track ncl (cn k m*k)*ncl nw w*nw n st*n           -> "<wf> <modify_roots ,-joined> <reset_new of it>"
     I nonewton user pprec cp0 nrounds (nb b*nb)*nrounds n (st inc none)*n
                                                                 -> "OK over rounds skipped sts" | "REJECT"
     D goal mult props resume newton mpwp_max minprec pprec user fixed nev ev*nev       (mps_standard_mpsolve)
        ev:  CD which_d err | FS d_after_f n roots | DS n roots | MS n roots
           | MM ncl (cn k m*k)* nw w* naux (inc none)* | XS nclusters | IN ok | IM cp0 nrounds (nb b*nb)*
        -> "OK exit over computed mpwp stops roots seen improve" | "REJECT"
           exit: resume|newton|checkdata|inclusion|float|dpe|early|loop|overmax|silent ; stops: latest first, e.g. 100 ;
           roots/seen: st:inc:none,... ; improve: - or rounds:over:skipped
     G goal secular_input start crude avoid_mp max_pack pprec nonewton user nev ev*nev           (mps_secular_ga_mpsolve)
        ev:  CD which_f err | ST err | FP b | ER b | SP exit n st*n | ND b | RG ok | XR b | IT fail best | VA n st*n
           | IM cp0 nrounds (nb b*nb)* n roots
        -> "OK exit why phase final" | "REJECT"     exit: errreturn|cleanuperrors|exitaftercopy|done ;
           why: -|errors|crude|avoidmp|stop:<exit_required>:<phase>:<sts> ; final: - or statuses after mps_improve (rounds:over:skipped:sts) *)
module BZ = Z
open Stopq
let rec pos_of_z (n : BZ.t) : positive =
  if BZ.equal n BZ.one then XH
  else if BZ.testbit n 0 then XI (pos_of_z (BZ.shift_right n 1)) else XO (pos_of_z (BZ.shift_right n 1))
let z_of_z (n : BZ.t) : z = if BZ.sign n = 0 then Z0 else if BZ.sign n > 0 then Zpos (pos_of_z n) else Zneg (pos_of_z (BZ.neg n))
let rec bz_of_pos = function XH -> BZ.one | XO p -> BZ.shift_left (bz_of_pos p) 1 | XI p -> BZ.succ (BZ.shift_left (bz_of_pos p) 1)
let bz_of_z = function Z0 -> BZ.zero | Zpos p -> bz_of_pos p | Zneg p -> BZ.neg (bz_of_pos p)
let rec nat_of_int n = if n <= 0 then O else if n > 1000000 then failwith "natural number too large" else S (nat_of_int (n - 1))
let rec int_of_nat = function O -> 0 | S n -> 1 + int_of_nat n
let b x = if x then "1" else "0"
let goal_of = function "i" -> GIsolate | "a" -> GApproximate | "c" -> GCount | _ -> failwith "bad goal"
let toks = ref []
let next () = match !toks with [] -> failwith "short line" | x :: r -> toks := r; x
let nint () = int_of_string (next ())
let nbool () = match next () with "1" -> true | "0" -> false | _ -> failwith "bad bool"
let nnat () = nat_of_int (nint ())
let nz () = z_of_z (BZ.of_string (next ()))
let rec rep n f = if n <= 0 then [] else let x = f () in x :: rep (n - 1) f
let nroot () = let s = nnat () in let i = nnat () in let a = nbool () in { rst = s; rinc = i; rnone = a }
let nroots () = let n = nint () in rep n nroot
let ncluster () = let c = nnat () in let k = nint () in let m = rep k nnat in { cn = c; cmem = m }
let nclusters () = let n = nint () in rep n ncluster
let nbools () = let n = nint () in rep n nbool
let nrounds () = let n = nint () in rep n nbools
let sts l = String.concat "," (List.map (fun s -> string_of_int (int_of_nat s)) l)
let roots l = if l = [] then "-" else String.concat "," (List.map (fun r -> Printf.sprintf "%d:%d:%s" (int_of_nat r.rst) (int_of_nat r.rinc) (b r.rnone)) l)
let phase_of = function 0 -> NoPhase | 1 -> FloatPhase | 2 -> DpePhase | 3 -> MpPhase | _ -> failwith "bad phase"
let variant_of = function "f" -> VFloat | "d" -> VDpe | "m" -> VMp | _ -> failwith "bad variant"
let nev () = match next () with
  | "CD" -> let w = nbool () in let e = nbool () in SvCheckData (w, e)
  | "FS" -> let d = nbool () in let r = nroots () in SvFSolve (d, r)
  | "DS" -> SvDSolve (nroots ())
  | "MS" -> SvMSolve (nroots ())
  | "MM" -> let c = nclusters () in let w = nbools () in let n = nint () in
            let aux = rep n (fun () -> let i = nnat () in let a = nbool () in (i, a)) in SvMModify (c, w, aux)
  | "XS" -> SvExitSub (nnat ())
  | "IN" -> SvInclusion (nbool ())
  | "IM" -> let cp = nz () in let r = nrounds () in SvImprove (cp, r)
  | t -> failwith ("bad event " ^ t)
let ngev () = match next () with
  | "CD" -> let w = nbool () in let e = nbool () in GvCheckData (w, e)
  | "ST" -> GvStart (nbool ())
  | "FP" -> GvFpe (nbool ())
  | "ER" -> GvErr (nbool ())
  | "SP" -> let e = nbool () in let n = nint () in let s = rep n nnat in GvStop (e, s)
  | "ND" -> GvNeedDpe (nbool ())
  | "RG" -> GvRegen (nbool ())
  | "XR" -> GvExitReq (nbool ())
  | "IT" -> let f = nbool () in let b = nbool () in GvIter (f, b)
  | "VA" -> let n = nint () in GvValidate (rep n nnat)
  | "IM" -> let cp = nz () in let r = nrounds () in let rs = nroots () in GvImprove (cp, r, rs)
  | t -> failwith ("bad event " ^ t)
let phase_name = function NoPhase -> "0" | FloatPhase -> "1" | DpePhase -> "2" | MpPhase -> "3"
let why_name = function
  | WErrors -> "errors" | WCrude -> "crude" | WAvoidMp -> "avoidmp"
  | WStop (e, ph, s) -> "stop:" ^ b e ^ ":" ^ phase_name ph ^ ":" ^ (if s = [] then "-" else sts s)
let exit_name = function
  | XErrResume -> "resume" | XErrNewton -> "newton" | XErrCheckData -> "checkdata" | XErrInclusion -> "inclusion"
  | XDone HFloatStop -> "float" | XDone HDpeStop -> "dpe" | XDone HApproxEarly -> "early" | XDone HLoopComputed -> "loop"
  | XDone HOverMax -> "overmax" | XDone HSilent -> "silent"
let () =
  try while true do
    let l = input_line stdin in
    (try
      toks := List.filter (fun x -> x <> "") (String.split_on_char ' ' (String.trim l));
      (match !toks with
       | [] -> ()
       | _ ->
      match next () with
      | "U" -> let g = goal_of (next ()) in let m = nbool () in let p = nbool () in let rs = nroots () in
               print_endline (b (check_stop g m p rs))
      | "S" -> let e = nbool () in let ph = phase_of (nint ()) in let n = nint () in let s = rep n nnat in
               print_endline (b (sec_check_stop e ph s))
      | "M" -> let v = variant_of (next ()) in let tr = nbool () in let cls = nclusters () in let w = nbools () in
               let n = nint () in let s = rep n nnat in
               let r = modify_roots v tr cls w s in
               print_endline (b (clusters_wfb (nat_of_int n) cls) ^ " " ^ sts r ^ " " ^ sts (reset_new r))
      | "I" -> let nn = nbool () in let us = nbool () in let pp = nz () in let cp = nz () in let rd = nrounds () in let rs = nroots () in
               (match improve nn us pp cp rd rs with
                | None -> print_endline "REJECT"
                | Some io -> print_endline ("OK " ^ b io.io_over ^ " " ^ string_of_int (int_of_nat io.io_rounds) ^ " " ^ b io.io_skipped ^ " " ^ sts io.io_sts))
      | "D" -> let g = goal_of (next ()) in let m = nbool () in let p = nbool () in let rsm = nbool () in let nw = nbool () in
               let mx = nz () in let mp = nz () in let pp = nz () in let us = nbool () in let fx = nbool () in
               let n = nint () in let evs = rep n nev in
               let cfg = { c_goal = g; c_mult = m; c_props = p; c_resume = rsm; c_newton = nw; c_skip_float = false;
                           c_mpwp_max = mx; c_minprec = mp; c_pprec = pp; c_user = us; c_fixed = fx } in
               (match std_run cfg evs with
                | None -> print_endline "REJECT"
                | Some o ->
                  print_endline (String.concat " " ["OK"; exit_name o.so_exit; b o.so_over_max; b o.so_computed; BZ.to_string (bz_of_z o.so_mpwp);
                    (if o.so_stops = [] then "-" else String.concat "" (List.map b o.so_stops)); roots o.so_roots; roots o.so_seen;
                    (match o.so_improve with None -> "-" | Some io -> Printf.sprintf "%d:%s:%s" (int_of_nat io.io_rounds) (b io.io_over) (b io.io_skipped))]))
      | "G" -> let g = goal_of (next ()) in let si = nbool () in let st = phase_of (nint ()) in let cr = nbool () in let av = nbool () in
               let mp = nz () in let pp = nz () in let nn = nbool () in let us = nbool () in
               let n = nint () in let evs = rep n ngev in
               let cfg = { g_goal = g; g_secular_input = si; g_start = st; g_crude = cr; g_avoid_mp = av; g_max_pack = mp; g_pprec = pp;
                           g_nonewton = nn; g_user = us } in
               (match sec_run cfg evs with
                | None -> print_endline "REJECT"
                | Some o ->
                  let (e, w, im) = (match o.go_exit with
                    | GErrReturn -> ("errreturn", "-", None) | GCleanupErrors -> ("cleanuperrors", "-", None)
                    | GExitAfterCopy w -> ("exitaftercopy", why_name w, None) | GDone (w, im) -> ("done", why_name w, im)) in
                  print_endline (String.concat " " ["OK"; e; w; phase_name o.go_phase;
                    (match im with None -> "-" | Some io -> Printf.sprintf "%d:%s:%s:%s" (int_of_nat io.io_rounds) (b io.io_over) (b io.io_skipped) (sts io.io_sts))]))
      | _ -> print_endline "BADLINE")
    with Failure m -> print_endline ("BADLINE " ^ m) | Invalid_argument m -> print_endline ("BADLINE " ^ m) | Stack_overflow -> print_endline "BADLINE stack overflow")
  done with End_of_file -> ()
