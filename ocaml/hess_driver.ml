(* C20 -- line-protocol driver around the extracted module Hess.

   One case per input line (all integers in hexadecimal with optional leading '-'):

       <mode> <n> <k> <s_re> <s_im> <h_0_re> <h_0_im> ... <h_{n*n-1}_re> <h_{n*n-1}_im>

   mode: any string over D (det), C (dcoded), B (bound): the outputs requested, in
   that order.  n, k decimal.  The matrix is row major (MPS_MATRIX_ELEM), entries are Gaussian
   integers (the check scales the dyadic inputs by a common power of two).
   Output line (fields for the requested outputs only):

       <det_re> <det_im> <dcoded_re> <dcoded_im> <bound>

   det    = Hess.hess_det_gauss      (verified: = det (H - s.I), Coq HessTie.v)
   dcoded = Hess.dhess_coded_gauss   (what the DPE variant computes as coded)
   bound  = Hess.hess_bound_gauss k  (the same recurrence on upper bounds of the
            moduli scaled by 2^k: an upper bound of B * 2^(k*n))
   A line whose first field is E asks for the HEAD error-vector model of the m variant:

       E <n> <k> <sc> <wp> <s_re> <s_im> <h_0_re> <h_0_im> ...      (sc, wp decimal; numbers hex)

   entries and shift are the Gaussian dyadics (re + i im) * 2^-sc; the output line is

       <det_re> <det_im> <det_exp> <err_mantissa> <err_exp>          (mantissas hex, exponents decimal)

   = Hess.mhess_head_dy k wp (HessModelM.mhess_head over exact Gaussian dyadics, bounds rounded up).
   A line whose first field is P replays set_coefficient_d calls on the coefficient-store model:

       P <fixed 0|1> <degree> <m> <fill_re> <fill_im> { <i> <m*m entries re im> }*      (i >= 0 decimal)

   output:  <statuses, one digit per call: 0 stored, 1 rejected, 2 memmove out of bounds (replay stops); "-" if
   no call> <re> <im> ... (the m*m entries of the first block of mP) = Hess.mpoly_run.
   Only conversions between text and the extracted positive/Z live here. *)

open Hess

let rec nat_of_int i = if i <= 0 then O else S (nat_of_int (i - 1))

(* hexadecimal text -> positive: build the bits directly *)
let z_of_hex (s : string) : z =
  let neg = String.length s > 0 && s.[0] = '-' in
  let s = if neg then String.sub s 1 (String.length s - 1) else s in
  (* most significant digit first; accumulate bits msb -> lsb *)
  let bits = Buffer.create (4 * String.length s) in
  String.iter (fun c ->
      let d = match c with
        | '0' .. '9' -> Char.code c - 48
        | 'a' .. 'f' -> Char.code c - 87
        | 'A' .. 'F' -> Char.code c - 55
        | _ -> failwith ("bad hex digit in " ^ s) in
      for b = 3 downto 0 do
        Buffer.add_char bits (if (d lsr b) land 1 = 1 then '1' else '0')
      done) s;
  let b = Buffer.contents bits in
  let n = String.length b in
  (* skip leading zeros *)
  let i = ref 0 in
  while !i < n && b.[!i] = '0' do incr i done;
  if !i >= n then Z0
  else begin
    (* the leading 1 is XH; following bits (towards lsb) wrap it *)
    let p = ref XH in
    for j = !i + 1 to n - 1 do
      p := if b.[j] = '1' then XI !p else XO !p
    done;
    if neg then Zneg !p else Zpos !p
  end

let hex_of_pos (p : positive) : string =
  (* collect bits lsb first *)
  let buf = Buffer.create 64 in
  let rec go = function
    | XH -> Buffer.add_char buf '1'
    | XO q -> Buffer.add_char buf '0'; go q
    | XI q -> Buffer.add_char buf '1'; go q in
  go p;
  let lsb = Buffer.contents buf in
  let nb = String.length lsb in
  let nd = (nb + 3) / 4 in
  let out = Bytes.make nd '0' in
  for d = 0 to nd - 1 do
    let v = ref 0 in
    for b = 3 downto 0 do
      let idx = 4 * d + b in
      v := (!v lsl 1) lor (if idx < nb && lsb.[idx] = '1' then 1 else 0)
    done;
    Bytes.set out (nd - 1 - d) "0123456789abcdef".[!v]
  done;
  Bytes.to_string out

let hex_of_z = function
  | Z0 -> "0"
  | Zpos p -> hex_of_pos p
  | Zneg p -> "-" ^ hex_of_pos p

let z_of_int (i : int) : z =
  if i >= 0 then z_of_hex (Printf.sprintf "%x" i) else z_of_hex ("-" ^ Printf.sprintf "%x" (- i))

let int_of_z (v : z) : int = int_of_string ((function s -> if String.length s > 0 && s.[0] = '-'
    then "-0x" ^ String.sub s 1 (String.length s - 1) else "0x" ^ s) (hex_of_z v))

let rec take_pairs l =
  match l with
  | [] -> []
  | [_] -> failwith "odd number of components"
  | a :: b :: t -> (z_of_hex a, z_of_hex b) :: take_pairs t

let rec split_rows n l =
  if l = [] then [] else begin
    let rec take k l acc = if k = 0 then (List.rev acc, l) else
        match l with [] -> failwith "short row" | x :: t -> take (k - 1) t (x :: acc) in
    let (r, rest) = take n l [] in
    r :: split_rows n rest
  end

let () =
  try
    while true do
      let line = input_line stdin in
      let toks = List.filter (fun s -> s <> "") (String.split_on_char ' ' (String.trim line)) in
      match toks with
      | [] -> ()
      | "P" :: fx :: ds :: ms :: fre :: fim :: rest ->
        let deg = int_of_string ds in
        let m = int_of_string ms in
        let per = 1 + 2 * m * m in
        let rec calls l =
          if l = [] then [] else begin
            let rec take k l acc = if k = 0 then (List.rev acc, l) else
                match l with [] -> failwith "short call" | x :: t -> take (k - 1) t (x :: acc) in
            let (c, rest) = take per l [] in
            (nat_of_int (int_of_string (List.hd c)), take_pairs (List.tl c)) :: calls rest
          end in
        let (st, blk) = mpoly_run (fx = "1") (nat_of_int deg) (nat_of_int m) (z_of_hex fre, z_of_hex fim) (calls rest) in
        let rec int_of_nat = function O -> 0 | S k -> 1 + int_of_nat k in
        let sts = String.concat "" (List.map (fun k -> string_of_int (int_of_nat k)) st) in
        print_string (String.concat " " ((if sts = "" then "-" else sts) :: List.concat (List.map (fun (a, b) -> [hex_of_z a; hex_of_z b]) blk)));
        print_newline ()
      | "E" :: ns :: ks :: scs :: wps :: sre :: sim :: rest ->
        let n = int_of_string ns in
        let k = int_of_string ks in
        let sc = int_of_string scs in
        let wp = int_of_string wps in
        let e = z_of_int (- sc) in
        let h = List.map (fun z -> (z, e)) (take_pairs rest) in
        if List.length h <> n * n then failwith "wrong number of entries";
        let rows = split_rows n h in
        let s = ((z_of_hex sre, z_of_hex sim), e) in
        let (((dr, di), de), (em, ee)) = mhess_head_dy (z_of_int k) (z_of_int wp) rows (nat_of_int n) s in
        Printf.printf "%s %s %d %s %d\n" (hex_of_z dr) (hex_of_z di) (int_of_z de) (hex_of_z em) (int_of_z ee)
      | mode :: ns :: ks :: sre :: sim :: rest ->
        let n = int_of_string ns in
        let k = int_of_string ks in
        let h = take_pairs rest in
        if List.length h <> n * n then failwith "wrong number of entries";
        let rows = split_rows n h in
        let s = (z_of_hex sre, z_of_hex sim) in
        let nn = nat_of_int n in
        let kz = z_of_hex (Printf.sprintf "%x" k) in
        let out = ref [] in
        String.iter (fun c ->
            match c with
            | 'D' -> let (dr, di) = hess_det_gauss rows nn s in out := !out @ [hex_of_z dr; hex_of_z di]
            | 'C' -> let (cr, ci) = dhess_coded_gauss rows nn s in out := !out @ [hex_of_z cr; hex_of_z ci]
            | 'B' -> let b = hess_bound_gauss kz rows nn s in out := !out @ [hex_of_z b]
            | _ -> failwith "bad mode") mode;
        print_string (String.concat " " !out);
        print_newline ()
      | _ -> failwith "short line"
    done
  with End_of_file -> ()
