(* C09: line-protocol driver around the extracted model Ptotal (stdin -> stdout).
   SKIP / TOK / OPT / FMT ask the model of the code as it is in /repo now (the *_fixed / *_cur
   definitions); SKIPOLD / TOKOLD / OPTOLD / FMTOLD ask the model of the code before the repairs
   (its defect predictions HANG / oob=1 / WILD are the regression inputs of checks/C09.py).
     SKIP <hex>        -> SKIP pos=<n> | SKIP HANG
     TOK <F|M> <hex>   -> TOKENS <n> <hex,hex,...> oob=<0|1> | TOKENS OUTOFFUEL
     OPT <hex>         -> OPT flag=<NAME> value=<hex|-> err=<0|1> msg=<escaped|WILD> oob=<0|1> | OPT TOOLONG | OPT CRASH
     FMT <hex>         -> MSG <escaped> | MSG WILD     (line number 7, message "C09MSG")
   <hex> is the byte string, "." for the empty string. *)
open Ptotal

let rec pos_of_int (x : int) : positive =
  if x = 1 then XH else if x land 1 = 1 then XI (pos_of_int (x lsr 1)) else XO (pos_of_int (x lsr 1))
let z_of_int (x : int) : z = if x = 0 then Z0 else if x > 0 then Zpos (pos_of_int x) else Zneg (pos_of_int (-x))
let rec int_of_pos (p : positive) : int =
  match p with XH -> 1 | XO q -> 2 * int_of_pos q | XI q -> 2 * int_of_pos q + 1
let int_of_z (v : z) : int = match v with Z0 -> 0 | Zpos p -> int_of_pos p | Zneg p -> - (int_of_pos p)
let rec nat_of_int (n : int) : nat = if n <= 0 then O else S (nat_of_int (n - 1))

let bytes_of_hex (h : string) : z list =
  if h = "." then [] else begin
    let n = String.length h / 2 in
    List.init n (fun i -> z_of_int (int_of_string ("0x" ^ String.sub h (2 * i) 2)))
  end
let hex_of_bytes (l : z list) : string =
  if l = [] then "." else String.concat "" (List.map (fun b -> Printf.sprintf "%02x" ((int_of_z b) land 255)) l)
let escaped (l : z list) : string =
  String.concat "" (List.map (fun b -> let c = (int_of_z b) land 255 in
    if c < 0x20 || c > 0x7e || c = 0x5c then Printf.sprintf "\\x%02x" c else String.make 1 (Char.chr c)) l)
let rec until_nul (l : z list) : z list =
  match l with [] -> [] | b :: r -> if int_of_z b = 0 then [] else b :: until_nul r
let str (s : string) : z list = List.init (String.length s) (fun i -> z_of_int (Char.code s.[i]))

let flag_name = function
  | FUndefined -> "UNDEFINED" | FInteger -> "INTEGER" | FReal -> "REAL" | FComplex -> "COMPLEX"
  | FRational -> "RATIONAL" | FFp -> "FP" | FSecular -> "SECULAR" | FMonomial -> "MONOMIAL"
  | FDense -> "DENSE" | FSparse -> "SPARSE" | FDegree -> "DEGREE" | FPrecision -> "PRECISION"
  | FChebyshev -> "CHEBYSHEV"

let env : z -> z = fun _ -> garbage

let handle (line : string) : string =
  match String.split_on_char ' ' (String.trim line) with
  | ["SKIPOLD"; h] ->
      let b = bytes_of_hex h in
      let n = List.length b in
      (match skip_comments (nat_of_int (n + 2)) b with
       | Done r -> Printf.sprintf "SKIP pos=%d" (n - List.length r)
       | _ -> "SKIP HANG")
  | ["SKIP"; h] ->
      let b = bytes_of_hex h in
      let n = List.length b in
      (match skip_comments_fixed (nat_of_int (n + 2)) b with
       | Done r -> Printf.sprintf "SKIP pos=%d" (n - List.length r)
       | _ -> "SKIP HANG")
  | [("TOK" | "TOKOLD") as cmd; k; h] ->
      let b = bytes_of_hex h in
      let b = if k = "M" then until_nul b else b in
      let n = List.length b in
      let kind = if k = "M" then MemStream else FileStream in
      (match (if cmd = "TOK" then tokens_stream_cur else tokens_stream) (nat_of_int (n + 2)) (nat_of_int (2 * n + 1100)) kind b [] false with
       | Done (toks, oob) ->
           Printf.sprintf "TOKENS %d %s oob=%d" (List.length toks)
             (String.concat "," (List.map hex_of_bytes toks)) (if oob then 1 else 0)
       | OutOfFuel -> "TOKENS OUTOFFUEL"
       | Crash _ -> "TOKENS CRASH")
  | [("OPT" | "OPTOLD") as cmd; h] ->
      let b = until_nul (bytes_of_hex h) in
      let n = List.length b in
      (match (if cmd = "OPT" then parse_option_line_fixed else parse_option_line) (nat_of_int (n + 300)) b env with
       | Done OTooLong -> "OPT TOOLONG"
       | Done (OOpt (f, v, e, oob)) ->
           Printf.sprintf "OPT flag=%s value=%s err=%d msg=%s oob=%d" (flag_name f)
             (match v with None -> "-" | Some l -> hex_of_bytes l)
             (match e with None -> 0 | Some _ -> 1)
             (match e with None -> "" | Some (MOk s) -> escaped s | Some MWild -> "WILD")
             (if oob then 1 else 0)
       | OutOfFuel -> "OPT OUTOFFUEL"
       | Crash _ -> "OPT CRASH")
  | ["FMTOLD"; h] ->
      let b = until_nul (bytes_of_hex h) in
      (match raise_parsing_error (z_of_int 7) b (str "C09MSG") with
       | MOk s -> "MSG " ^ escaped s
       | MWild -> "MSG WILD")
  | ["FMT"; h] ->
      let b = until_nul (bytes_of_hex h) in
      (match raise_parsing_error_fixed (z_of_int 7) b (str "C09MSG") with
       | MOk s -> "MSG " ^ escaped s
       | MWild -> "MSG WILD")
  | _ -> "BADCMD"

let () =
  try
    while true do
      let l = input_line stdin in
      print_string (handle l); print_char '\n'
    done
  with End_of_file -> ()
