(* line protocol for the C01 event-trace acceptor (coq/Skel/TraceDefs.v); zarith only for text -> bits.
   numbers: [-]NUM/DEN or [-]NUM, each part decimal or 0x-prefixed hexadecimal; a missing radius is "-"
     T n (k re im rad)*n      k: e (Newton entry) | x (Newton exit) | f (returned disc)
        -> one letter per observation, computed by the extracted `walk None`:
           N no claim, 1 first finite radius (fresh), S same disc, E same centre larger radius,
           M moved and new disc contains the old one, F fresh radius;  then " " and the number of obligations
           (length of the extracted `obligations None`), which must equal the number of 1/F letters
     I re im rad re im rad    -> improve_step_ok dN dF as 0/1
     C re im rad re im rad    -> incl d d' as 0/1 *)
module BZ = Z
open Trc
let rec pos_of_z (n : BZ.t) : positive =
  if BZ.equal n BZ.one then XH
  else if BZ.testbit n 0 then XI (pos_of_z (BZ.shift_right n 1)) else XO (pos_of_z (BZ.shift_right n 1))
let z_of_z (n : BZ.t) : z = if BZ.sign n = 0 then Z0 else if BZ.sign n > 0 then Zpos (pos_of_z n) else Zneg (pos_of_z (BZ.neg n))
let q_of s = match String.split_on_char '/' s with
  | [n; d] -> { qnum = z_of_z (BZ.of_string n); qden = pos_of_z (BZ.of_string d) }
  | [n] -> { qnum = z_of_z (BZ.of_string n); qden = XH }
  | _ -> failwith "bad rational"
let kind_of = function "e" -> KEntry | "x" -> KExit | "f" -> KFinal | _ -> failwith "bad kind"
let rec take_obs n toks = if n = 0 then [] else match toks with
  | k :: re :: im :: r :: rest ->
    { okd = kind_of k; ore = q_of re; oim = q_of im; orad = (if r = "-" then None else Some (q_of r)) } :: take_obs (n - 1) rest
  | _ -> failwith "short line"
let letter = function CNoClaim -> 'N' | CFirst -> '1' | CSame -> 'S' | CEnlarge -> 'E' | CMoveEnlarge -> 'M' | CFresh -> 'F'
let disc3 re im r = { cre = q_of re; cim = q_of im; crad = q_of r }
let b x = if x then "1" else "0"
let () =
  try while true do
    let l = input_line stdin in
    (try match List.filter (fun x -> x <> "") (String.split_on_char ' ' (String.trim l)) with
    | "T" :: n :: rest ->
      let tr = take_obs (int_of_string n) rest in
      let w = walk None tr in
      let buf = Buffer.create 64 in
      List.iter (fun (c, _) -> Buffer.add_char buf (letter c)) w;
      print_endline (Buffer.contents buf ^ " " ^ string_of_int (List.length (obligations None tr)))
    | ["I"; a; bb; c; d; e; f] -> print_endline (b (improve_step_ok (disc3 a bb c) (disc3 d e f)))
    | ["C"; a; bb; c; d; e; f] -> print_endline (b (incl (disc3 a bb c) (disc3 d e f)))
    | [] -> print_endline ""
    | _ -> print_endline "BADLINE"
    with Failure m -> print_endline ("BADLINE " ^ m) | Invalid_argument m -> print_endline ("BADLINE " ^ m))
  done with End_of_file -> ()
