(* C08 -- line-protocol driver around the extracted touch / classification model (module Incl).
   stdin : the lines harness/c08_incl.c reads, S lines extended with the outcomes the model takes from the real code:
     T <id> <variant f|d|m> <factor> <prec> xM xE yM yE rM rE
     S <id> <variant> <set> <realstruct> <detect> <sep> <lmax> <zero_roots> <prec> <n> <clusters> {xM xE yM yE rM rE inc attrs}*n
       <SM: 2n bits (radius test of inclusion.c, of modify.c)> <UN: 3n bits (touchunit(2n), in_unit, in_compl; used for variant m only)>
       [FX=1: the tree has the allowance patch of this variant (f, d) applied: the unit-circle outcome of the repaired test is used]
   stdout: T -> <id> T=<real><imag><unit or ?> F=<unit after fixes/C08_munit_tangent.patch or ?>
                     G=<unit of the repaired test: f, d after fixes/C08_{f,d}unit_allowance.patch; m as F>
           S -> <id> T=<7n> SD=<6n> DA=<n> INC=<n> ATT=<n> CNT=c0,c1,c2
   zarith is used for reading decimal integers only. *)
module BZ = Z
open Incl

let rec pos_of_zarith (x : BZ.t) : positive =
  if BZ.equal x BZ.one then XH
  else if BZ.testbit x 0 then XI (pos_of_zarith (BZ.shift_right x 1)) else XO (pos_of_zarith (BZ.shift_right x 1))
let z_of_string (s : string) : z =
  let v = BZ.of_string s in
  if BZ.sign v = 0 then Z0 else if BZ.sign v > 0 then Zpos (pos_of_zarith v) else Zneg (pos_of_zarith (BZ.neg v))
let rec nat_of_int (k : int) : nat = if k <= 0 then O else S (nat_of_int (k - 1))
let int_of_nat (x : nat) : int = let rec go acc = function O -> acc | S y -> go (acc + 1) y in go 0 x

let variant_of = function "f" -> VF | "d" -> VD | "m" -> VM | _ -> failwith "variant"
let set_of = function
  | "a" -> S_PLANE | "i" -> S_UNIT | "o" -> S_UNIT_COMPL | "l" -> S_NEG_RE | "r" -> S_POS_RE
  | "d" -> S_NEG_IM | "u" -> S_POS_IM | "R" -> S_REAL | "I" -> S_IMAG | _ -> S_CUSTOM
let incl_of = function 1 -> IN | 2 -> OUT | _ -> UNKNOWN
let attrs_of = function 1 -> A_REAL | 2 -> A_NOT_REAL | 3 -> A_IMAG | _ -> A_NONE
let ci = function UNKNOWN -> '0' | IN -> '1' | OUT -> '2'
let ca = function A_NONE -> '0' | A_REAL -> '1' | A_NOT_REAL -> '2' | A_IMAG -> '3'
let cb b = if b then '1' else '0'
let bit s k = s.[k] = '1'

let parse_clusters (s : string) : int list list =
  List.map (fun c -> if c = "" then [] else List.map int_of_string (String.split_on_char ',' c)) (String.split_on_char ';' s)

let () =
  try
    while true do
      let line = input_line stdin in
      match String.split_on_char ' ' (String.trim line) with
      | "T" :: id :: v :: fac :: _prec :: xm :: xe :: ym :: ye :: rm :: re :: [] ->
        let zs = z_of_string in
        let ((a, b), c) = touch3 (variant_of v) (zs fac) (zs xm) (zs xe) (zs ym) (zs ye) (zs rm) (zs re) in
        let ob = function Some x -> cb x | None -> '?' in
        let c' = if v = "m" then touch_unit_m_fixed (zs fac) (zs xm) (zs xe) (zs ym) (zs ye) (zs rm) (zs re) else c in
        let g = touch_unit_fixed (variant_of v) (zs fac) (zs xm) (zs xe) (zs ym) (zs ye) (zs rm) (zs re) in
        Printf.printf "%s T=%c%c%c F=%c G=%c\n" id (cb a) (cb b) (ob c) (ob c') (ob g)
      | "S" :: id :: v :: st :: rs :: det :: _sep :: _lmax :: zr :: _prec :: ns :: cl :: rest ->
        let n = int_of_string ns in
        let toks = Array.of_list rest in
        let sm = toks.(8 * n) and un = toks.(8 * n + 1) in
        let var = variant_of v in
        let fx = Array.length toks > 8 * n + 2 && toks.(8 * n + 2) = "FX=1" in
        let nz = z_of_string ns in
        let obs = Array.init n (fun i ->
            let t k = toks.(8 * i + k) in
            root_obs_gen fx var nz (z_of_string (t 0)) (z_of_string (t 1)) (z_of_string (t 2)) (z_of_string (t 3))
              (z_of_string (t 4)) (z_of_string (t 5)) (bit un (3 * i)) (bit un (3 * i + 1)) (bit un (3 * i + 2)) false) in
        let roots = Array.init n (fun i ->
            mk_root obs.(i) (bit sm (2 * i)) (bit sm (2 * i + 1))
              (incl_of (int_of_string toks.(8 * i + 6))) (attrs_of (int_of_string toks.(8 * i + 7)))) in
        let clusters = parse_clusters cl in
        let d = int_of_string det in
        let ((da, res), ((c0, c1), c2)) =
          run_state (set_of st) (rs = "1") (d land 1 = 1) (d land 2 = 2) (nat_of_int (int_of_string zr))
            (List.map (List.map (fun k -> roots.(k))) clusters) in
        let dav = Bytes.make n '?' and inc = Bytes.make n '?' and att = Bytes.make n '?' in
        List.iter2 (fun c (das, rs) ->
            List.iter2 (fun k (a, (i, a2)) -> Bytes.set dav k (ca a); Bytes.set inc k (ci i); Bytes.set att k (ca a2))
              c (List.combine das rs))
          clusters (List.combine da res);
        let cat f = String.concat "" (Array.to_list (Array.map (fun o -> String.init (List.length (f o)) (fun j -> cb (List.nth (f o) j))) obs)) in
        Printf.printf "%s T=%s SD=%s DA=%s INC=%s ATT=%s CNT=%d,%d,%d\n" id (cat obs_bits) (cat side_bits)
          (Bytes.to_string dav) (Bytes.to_string inc) (Bytes.to_string att) (int_of_nat c0) (int_of_nat c1) (int_of_nat c2)
      | [""] | [] -> ()
      | id :: _ -> Printf.printf "%s ERROR bad line\n" id
    done
  with End_of_file -> ()
