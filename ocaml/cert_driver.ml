(* mpscert (bin/cert): line-protocol driver around the extracted module Cert.
   This file only parses integers/commands, calls the extracted functions and
   prints their results.  See lib/ORACLE_API.md for the protocol. *)
open Cert

(* ---------- integer literals <-> extracted Z ---------- *)

let rec pos_of_int (n : int) : positive =       (* n >= 1 *)
  if n = 1 then XH
  else if n land 1 = 1 then XI (pos_of_int (n lsr 1)) else XO (pos_of_int (n lsr 1))

let z_of_int (n : int) : z =
  if n = 0 then Z0 else if n > 0 then Zpos (pos_of_int n) else Zneg (pos_of_int (-n))

let rec int_of_pos = function
  | XH -> 1 | XO p -> 2 * int_of_pos p | XI p -> 2 * int_of_pos p + 1

let rec nat_of_int n = if n <= 0 then O else S (nat_of_int (n - 1))
let rec int_of_nat = function O -> 0 | S n -> 1 + int_of_nat n

let hexval c = match c with
  | '0'..'9' -> Char.code c - 48
  | 'a'..'f' -> Char.code c - 87
  | 'A'..'F' -> Char.code c - 55
  | _ -> failwith "bad hex digit"

(* most significant digit first; linear *)
let z_of_hex (s : string) (neg : bool) : z =
  let acc = ref None in
  String.iter (fun c ->
    let v = hexval c in
    for k = 3 downto 0 do
      let bit = (v lsr k) land 1 = 1 in
      acc := (match !acc with
              | None -> if bit then Some XH else None
              | Some p -> Some (if bit then XI p else XO p))
    done) s;
  match !acc with None -> Z0 | Some p -> if neg then Zneg p else Zpos p

let chunk = 18
let ten18 = z_of_int 1_000_000_000_000_000_000

let z_of_dec (s : string) (neg : bool) : z =
  let n = String.length s in
  if n = 0 then failwith "empty integer";
  String.iter (fun c -> if c < '0' || c > '9' then failwith "bad decimal digit") s;
  let first = n mod chunk in
  let acc = ref (if first = 0 then Z0 else z_of_int (int_of_string (String.sub s 0 first))) in
  let i = ref first in
  while !i < n do
    let c = z_of_int (int_of_string (String.sub s !i chunk)) in
    acc := Z.add (Z.mul ten18 !acc) c;
    i := !i + chunk
  done;
  if neg then Z.opp !acc else !acc

let z_of_string (s0 : string) : z =
  let n = String.length s0 in
  if n = 0 then failwith "empty integer";
  let neg = s0.[0] = '-' in
  let s = if neg || s0.[0] = '+' then String.sub s0 1 (n - 1) else s0 in
  let m = String.length s in
  if m > 2 && s.[0] = '0' && (s.[1] = 'x' || s.[1] = 'X')
  then z_of_hex (String.sub s 2 (m - 2)) neg
  else z_of_dec s neg

let hexout = ref false

let hex_of_pos (p : positive) : string =
  (* collect bits, least significant first *)
  let bits = Buffer.create 64 in
  let rec go = function
    | XH -> Buffer.add_char bits '1'
    | XO q -> Buffer.add_char bits '0'; go q
    | XI q -> Buffer.add_char bits '1'; go q in
  go p;
  let b = Buffer.contents bits in
  let n = String.length b in
  let nd = (n + 3) / 4 in
  let out = Bytes.make nd '0' in
  for d = 0 to nd - 1 do
    let v = ref 0 in
    for k = 3 downto 0 do
      let idx = 4 * d + k in
      v := 2 * !v + (if idx < n && b.[idx] = '1' then 1 else 0)
    done;
    Bytes.set out (nd - 1 - d) "0123456789abcdef".[!v]
  done;
  "0x" ^ Bytes.to_string out

let dec_of_pos (p : positive) : string =
  let parts = ref [] in
  let cur = ref (Zpos p) in
  while !cur <> Z0 do
    let (q, r) = Z.quotrem !cur ten18 in
    let ri = (match r with Z0 -> 0 | Zpos rp -> int_of_pos rp | Zneg _ -> failwith "neg rem") in
    parts := ri :: !parts;
    cur := q
  done;
  match !parts with
  | [] -> "0"
  | hd :: tl -> String.concat "" (string_of_int hd :: List.map (Printf.sprintf "%018d") tl)

let string_of_z (x : z) : string =
  match x with
  | Z0 -> "0"
  | Zpos p -> if !hexout then hex_of_pos p else dec_of_pos p
  | Zneg p -> "-" ^ (if !hexout then hex_of_pos p else dec_of_pos p)

(* ---------- state ---------- *)

let poly_in : rcoef list ref = ref []
let scale : z ref = ref (z_of_int 1)
let pint : g list ref = ref []
let cg : g ref = ref (z_of_int 1, Z0)
let ca : g ref = ref (z_of_int 1, Z0)
let facs : (int * z * g list * disc list) list ref = ref []     (* discs in reverse order *)
let queries : rdisc list ref = ref []                        (* reverse order *)
let checked : cert option ref = ref None

let reset () =
  poly_in := []; scale := z_of_int 1; pint := []; cg := (z_of_int 1, Z0);
  ca := (z_of_int 1, Z0); facs := []; queries := []; checked := None

let build_cert () : cert =
  { c_scale = !scale; c_pint = !pint; c_g = !cg; c_a = !ca;
    c_factors = List.map (fun (m, k, q, ds) ->
      { f_m = nat_of_int m; f_prec = k; f_q = q; f_discs = List.rev ds }) !facs }

let tokens (l : string) : string list =
  List.filter (fun s -> s <> "") (String.split_on_char ' ' (String.trim l))

let read_tokens () : string list = tokens (input_line stdin)

let read_rcoefs (n : int) : rcoef list =
  List.init n (fun _ ->
    match read_tokens () with
    | [a; b; c; d] -> { re_n = z_of_string a; re_d = z_of_string b;
                        im_n = z_of_string c; im_d = z_of_string d }
    | _ -> failwith "expected: re_num re_den im_num im_den")

let read_gs (n : int) : g list =
  List.init n (fun _ ->
    match read_tokens () with
    | [a; b] -> (z_of_string a, z_of_string b)
    | _ -> failwith "expected: re im")

let add_tiny (k : int) (d : disc) =
  if k < 0 || k >= List.length !facs then failwith "tiny: no such factor";
  facs := List.mapi (fun i (m, p, q, ds) -> if i = k then (m, p, q, d :: ds) else (m, p, q, ds)) !facs;
  checked := None

(* explanation of a failure, computed with the extracted sub-checks *)
let fail_reason (p : rcoef list) (ct : cert) : string =
  if not (scaling_ok p ct) then "scaling (c*P <> pint, zero denominator or c = 0)"
  else if not (product_ok ct) then "product (g*pint <> a*prod Q_k^m_k, or g = 0, or a = 0)"
  else begin
    let r = ref "" in
    List.iteri (fun k f ->
      if !r = "" then begin
        if not (factor_shape_ok f) then
          r := Printf.sprintf "factor %d shape (m = 0, zero leading coefficient, #discs <> degree, or bad disc)" k
        else
          List.iteri (fun j t ->
            if !r = "" && not (newton_test f.f_prec f.f_q t) then
              r := Printf.sprintf "factor %d disc %d newton test" k j) f.f_discs
      end) ct.c_factors;
    if !r <> "" then !r
    else begin
      let ds = Array.of_list (all_discs ct) in
      let n = Array.length ds in
      (try
        for i = 0 to n - 1 do for j = i + 1 to n - 1 do
          if not (disc_disjoint ds.(i) ds.(j)) then begin
            r := Printf.sprintf "tiny discs %d and %d not disjoint" i j; raise Exit end
        done done
      with Exit -> ());
      if !r <> "" then !r else "unknown"
    end
  end

let with_cert (f : cert -> unit) =
  match !checked with
  | Some ct -> f ct
  | None -> print_endline "ERR not-checked"

let print_rcoefs (l : rcoef list) =
  Printf.printf "POLY %d\n" (List.length l - 1);
  List.iter (fun c -> Printf.printf "%s %s %s %s\n" (string_of_z c.re_n) (string_of_z c.re_d)
                        (string_of_z c.im_n) (string_of_z c.im_d)) l

let side_char = function Gt -> "+" | Lt -> "-" | Eq -> "0"

let handle (toks : string list) : unit =
  match toks with
  | [] -> ()
  | ["reset"] -> reset ()
  | ["hexout"] -> hexout := true
  | ["decout"] -> hexout := false
  | ["poly"; n] ->
      let n = int_of_string n in
      poly_in := read_rcoefs (n + 1); checked := None
  | ["pint"; c; n] ->
      let n = int_of_string n in
      scale := z_of_string c; pint := read_gs (n + 1); checked := None
  | ["mult"; gr; gi; ar; ai] ->
      cg := (z_of_string gr, z_of_string gi); ca := (z_of_string ar, z_of_string ai);
      checked := None
  | ["factor"; m; d] ->
      let q = read_gs (int_of_string d + 1) in
      facs := !facs @ [(int_of_string m, Z0, q, [])]; checked := None
  | ["factor"; m; d; k] ->
      let q = read_gs (int_of_string d + 1) in
      facs := !facs @ [(int_of_string m, z_of_string k, q, [])]; checked := None
  | ["tiny"; k; a; b; r; e] ->
      add_tiny (int_of_string k)
        (disc_of_dyadic (z_of_string a) (z_of_string b) (z_of_string r) (z_of_string e))
  | ["tinyq"; k; a; b; r; s] ->
      add_tiny (int_of_string k)
        { dc = (z_of_string a, z_of_string b); dr = z_of_string r; ds = z_of_string s }
  | ["check"] ->
      let ct = build_cert () in
      if cert_check !poly_in ct then begin checked := Some ct; print_endline "CERT OK" end
      else begin checked := None; print_endline ("CERT FAIL " ^ fail_reason !poly_in ct) end
  | ["disc"; a; b; c; d; rn; rd] ->
      with_cert (fun ct ->
        let q = { q_c = { re_n = z_of_string a; re_d = z_of_string b;
                          im_n = z_of_string c; im_d = z_of_string d };
                  q_rn = z_of_string rn; q_rd = z_of_string rd } in
        queries := q :: !queries;
        let (lo, hi) = count_bounds ct q in
        Printf.printf "%d %d\n" (int_of_nat lo) (int_of_nat hi))
  | ["cleardiscs"] -> queries := []
  | ["cover"] ->
      with_cert (fun ct ->
        let res = cover ct (List.rev !queries) in
        let show l = match l with
          | [] -> "-"
          | _ -> String.concat "," (List.map (fun i -> string_of_int (int_of_nat i)) l) in
        print_endline ("COVER " ^ String.concat " " (List.map show res));
        print_endline ("UNCOVERED " ^ String.concat " "
          (List.map (fun b -> if b then "1" else "0") (uncovered ct (List.rev !queries))));
        print_endline (if all_covered ct (List.rev !queries) then "ALLCOVERED yes" else "ALLCOVERED no"))
  | ["side"; kind] ->
      with_cert (fun ct ->
        let k = (match kind with "re" -> 0 | "im" -> 1 | "unit" -> 2 | _ -> failwith "side: re|im|unit") in
        print_endline ("SIDE " ^ String.concat " " (List.map side_char (sides (nat_of_int k) ct))))
  | ["real"] ->
      with_cert (fun ct ->
        print_endline ("REAL " ^ String.concat " "
          (List.map (fun b -> if b then "1" else "0") (real_roots !poly_in ct))))
  | ["roots"] ->
      with_cert (fun ct ->
        let l = tiny_list ct in
        Printf.printf "ROOTS %d\n" (List.length l);
        List.iter (fun (m, t) ->
          Printf.printf "%d %s %s %s %s\n" (int_of_nat m) (string_of_z (fst t.dc))
            (string_of_z (snd t.dc)) (string_of_z t.dr) (string_of_z t.ds)) l)
  | ["secular"; n] ->
      (* n lines: a_re_num a_re_den a_im_num a_im_den b_re_num b_re_den b_im_num b_im_den *)
      let n = int_of_string n in
      let ab = List.init n (fun _ ->
        match read_tokens () with
        | [a1; a2; a3; a4; b1; b2; b3; b4] ->
            ({ re_n = z_of_string a1; re_d = z_of_string a2; im_n = z_of_string a3; im_d = z_of_string a4 },
             { re_n = z_of_string b1; re_d = z_of_string b2; im_n = z_of_string b3; im_d = z_of_string b4 })
        | _ -> failwith "expected 8 integers") in
      if not (secular_wf ab) then print_endline "ERR zero denominator"
      else print_rcoefs (secular_to_monomial ab)
  | ["cheb"; n] ->
      let cs = read_rcoefs (int_of_string n + 1) in
      if not (all_rcoef_wf cs) then print_endline "ERR zero denominator"
      else print_rcoefs (chebyshev_to_monomial cs)
  | ["quit"] -> exit 0
  | cmd :: _ -> failwith ("unknown command: " ^ cmd)

let () =
  try
    while true do
      let l = input_line stdin in
      (try handle (tokens l) with
       | Failure m -> print_endline ("ERR " ^ m)
       | Exit -> print_endline "ERR exit");
      flush stdout
    done
  with End_of_file -> ()
