(* C09: line-protocol driver around the extracted whole-file model Pwhole (stdin -> stdout).
     PARSE <S|F> <0|1> <hex>   S = mps_parse_string, F = mps_parse_stream / mps_parse_file;
                               second field: 1 = the Chebyshev sparse reader checks the parsed degree
        -> POLY type=<0..3> deg=<d> structure=<n> density=<n> prec=<p> ok=<0|1> work=<w>
         | ERR <escaped text> ok=<0|1> work=<w>
         | ERRI <escaped format> ok=<0|1> work=<w>      (a conversion of the format has no argument)
         | CRASH <code> ok=<0|1> work=<w>
         | FUEL
     GMP <hex>                 -> GMP f=<0|1> q=<0|1> num=<n> den=<d> d=<sscanf %d|-> ld=<sscanf %ld|-> atoi=<n> mul=<(long)(atoi*LOG2_10)>
                                  pl=<v|-> pd=<v|-> pp=<v|-> pq=<v|-> mulq=<(long)(pq*LOG2_10)|-> pn=<v|->
                                  (mps_utils_parse_long with the five ranges the parsers use, see harness/c09_parse.c)
     GMPOLD <hex>              -> the first line of fields only (a source tree without mps_utils_parse_long)
   GMP's mpf_set_str / mpq_set_str are the transcriptions gmpf621 / gmpq621.
   <hex> is the byte string, "." for the empty string.  Only I/O here (hex, decimal). *)
module ZA = Z
open Pwhole

let rec pos_of_int (x : int) : positive =
  if x = 1 then XH else if x land 1 = 1 then XI (pos_of_int (x lsr 1)) else XO (pos_of_int (x lsr 1))
let z_of_int (x : int) : z = if x = 0 then Z0 else if x > 0 then Zpos (pos_of_int x) else Zneg (pos_of_int (-x))
let rec zt_of_pos (p : positive) : ZA.t =
  match p with XH -> ZA.one | XO q -> ZA.mul (ZA.of_int 2) (zt_of_pos q) | XI q -> ZA.succ (ZA.mul (ZA.of_int 2) (zt_of_pos q))
let zs (v : z) : string =
  match v with Z0 -> "0" | Zpos p -> ZA.to_string (zt_of_pos p) | Zneg p -> "-" ^ ZA.to_string (zt_of_pos p)
let int_of_z (v : z) : int = int_of_string (zs v)

let bytes_of_hex (h : string) : z list =
  if h = "." then [] else begin
    let n = String.length h / 2 in
    List.init n (fun i -> z_of_int (int_of_string ("0x" ^ String.sub h (2 * i) 2)))
  end
let escaped (l : z list) : string =
  String.concat "" (List.map (fun b -> let c = (int_of_z b) land 255 in
    if c < 0x20 || c > 0x7e || c = 0x5c then Printf.sprintf "\\x%02x" c else String.make 1 (Char.chr c)) l)

let structure_code (cplx : bool) (k : skd) : int =
  (if cplx then 4 else 0) + (match k with KInt -> 0 | KRat -> 1 | KFp -> 2)

let tail (b : lbuf) : string = Printf.sprintf "ok=%d work=%s" (if b.lok then 1 else 0) (zs b.lwork)

let handle (line : string) : string =
  match String.split_on_char ' ' (String.trim line) with
  | ["PARSE"; k; c; h] ->
      let b = bytes_of_hex h in
      let bud = budget_of b in
      let chk = (c = "1") in
      let r = if k = "S" then parse_string gmpf621 gmpq621 chk bud b else parse_stream gmpf621 gmpq621 chk bud b in
      (match r with
       | SOk (p, st) ->
           Printf.sprintf "POLY type=%s deg=%s structure=%d density=%s prec=%s %s" (zs p.p_type) (zs p.p_deg)
             (structure_code p.p_cplx p.p_kind) (zs p.p_dens) (zs p.p_prec) (tail st)
       | SErr (EMsg s, st) -> Printf.sprintf "ERR %s %s" (escaped s) (tail st)
       | SErr (EIndet f, st) -> Printf.sprintf "ERRI %s %s" (escaped f) (tail st)
       | SCrash (w, st) -> Printf.sprintf "CRASH %s %s" (zs w) (tail st)
       | SFuel -> "FUEL")
  | [("GMP" | "GMPOLD") as cmd; h] ->
      let b = bytes_of_hex h in
      let o = function None -> "-" | Some v -> zs v in
      let (q, n, d) = match gmpq621 b with None -> (0, "-", "-") | Some (n, d) -> (1, zs n, zs d) in
      let first = Printf.sprintf "GMP f=%d q=%d num=%s den=%s d=%s ld=%s atoi=%s mul=%s" (if gmpf621 b then 1 else 0) q n d
        (o (sscanf_d b)) (o (sscanf_ld b)) (zs (atoi b)) (zs (mul_log2_10 (atoi b))) in
      if cmd = "GMPOLD" then first else begin
        let zi (s : string) : z = let t = ZA.of_string s in
          let rec pos (x : ZA.t) : positive =
            if ZA.equal x ZA.one then XH
            else if ZA.is_odd x then XI (pos (ZA.shift_right x 1)) else XO (pos (ZA.shift_right x 1)) in
          if ZA.sign t = 0 then Z0 else if ZA.sign t > 0 then Zpos (pos t) else Zneg (pos (ZA.neg t)) in
        let lmin = zi "-9223372036854775808" and lmax = zi "9223372036854775807" in
        let imax = zi "2147483647" and imax1 = zi "2147483646" and lmax4 = zi "2305843009213693951" in
        let pq = parse_long b lmin lmax4 in
        Printf.sprintf "%s pl=%s pd=%s pp=%s pq=%s mulq=%s pn=%s" first
          (o (parse_long b lmin lmax)) (o (parse_long b (zi "1") imax1)) (o (parse_long b (zi "1") imax))
          (o pq) (match pq with None -> "-" | Some v -> zs (mul_log2_10 v)) (o (parse_long b Z0 imax1))
      end
  | _ -> "BADCMD"

let () =
  try
    while true do
      let l = input_line stdin in
      print_string (handle l); print_char '\n'
    done
  with End_of_file -> ()
