(* line protocol for the accessor predicates (Access/AccessModel.v):
     Q zmr zmi rm zar zai ra        each "num/den" (decimal, den > 0)
   -> "<acc_ok> <acc_disjoint> <same_value>"  as 0/1.   zarith only for decimal->bits *)
module BZ = Z
open Accq
let rec pos_of_z (n : BZ.t) : positive =
  if BZ.equal n BZ.one then XH
  else if BZ.testbit n 0 then XI (pos_of_z (BZ.shift_right n 1)) else XO (pos_of_z (BZ.shift_right n 1))
let z_of_z (n : BZ.t) : z = if BZ.sign n = 0 then Z0 else if BZ.sign n > 0 then Zpos (pos_of_z n) else Zneg (pos_of_z (BZ.neg n))
let q_of s = match String.split_on_char '/' s with
  | [n; d] -> { qnum = z_of_z (BZ.of_string n); qden = pos_of_z (BZ.of_string d) }
  | [n] -> { qnum = z_of_z (BZ.of_string n); qden = XH }
  | _ -> failwith "bad rational"
let b x = if x then "1" else "0"
let () =
  try while true do
    let l = input_line stdin in
    match List.filter (fun x -> x <> "") (String.split_on_char ' ' (String.trim l)) with
    | ["Q"; a; b_; c; d; e; f] ->
      let zmr = q_of a and zmi = q_of b_ and rm = q_of c and zar = q_of d and zai = q_of e and ra = q_of f in
      print_endline (b (acc_ok zmr zmi rm zar zai ra) ^ " " ^ b (acc_disjoint zmr zmi rm zar zai ra) ^ " " ^ b (same_value zmr zmi zar zai))
    | [] -> ()
    | _ -> print_endline "BADLINE"
  done with End_of_file -> ()
