(* pool_driver.ml -- C06 trace validator around the extracted Pool.step.
   stdin: blocks written by harness/c06_pool.c
       # run <seq> script <s> status <st> rc <rc> cost <c> div <d> what <w> sched <csv>
       <trace lines of harness/vf_sched.h>
       # end
   stdout: one `BAD ...` line per run that is not (accepted by the model, invariants true in
   every state, harness assertions true), and a final `SUMMARY ...` line.
   Modes:  pool            validate with Pool.step
           pool --strict   validate with Pool.step_d (limit lowered / pool freed only when quiescent)
           pool --repaired start from Pool.init_r (threading.c with fixes/C06_limit_while_busy.patch)
           pool --witness NAME   print a model trace in the shim's trace format plus a `follow` line
   The internal step LTau (worker reads thread->alive) is fired right after each event of
   that worker as soon as the model enables it: that is when the real code performs the read. *)
open Pool

let rec nat_of_int n = if n <= 0 then O else S (nat_of_int (n - 1))
let rec int_of_nat = function O -> 0 | S n -> 1 + int_of_nat n

let mu_of s = match s with "m0" | "c0" -> Some QC | "m1" | "c1" -> Some WC | _ -> None

exception Skip
exception Bad_line of string

(* one trace line -> label (None = line carries no model step) *)
let label_of_line (line : string) : label option =
  let f = Array.of_list (String.split_on_char ' ' line) in
  let n = Array.length f in
  if n < 2 then raise (Bad_line line);
  let t = nat_of_int (int_of_string f.(0)) in
  let m i = match mu_of f.(i) with Some m -> m | None -> raise (Bad_line line) in
  match f.(1) with
  | "minit" | "mdestroy" | "cinit" | "cdestroy" | "name" -> None
  | "begin" -> Some (LBegin t)
  | "exit" -> Some (LExit t)
  | "cont" -> Some (LCont t)
  | "yield" -> Some (LYield t)
  | "create" -> Some (LCreate (t, nat_of_int (int_of_string f.(2))))
  | "join" -> Some (LJoin (t, nat_of_int (int_of_string f.(2))))
  | "lock" -> Some (LLock (t, m 2))
  | "unlock" -> Some (LUnlock (t, m 2))
  | "cwait" -> if mu_of f.(2) <> mu_of f.(3) then raise (Bad_line line); Some (LCWait (t, m 2))
  | "cwake" -> if mu_of f.(2) <> mu_of f.(3) then raise (Bad_line line); Some (LCWake (t, m 2, f.(4) = "1"))
  | "signal" -> let u = int_of_string f.(3) in Some (LSignal (t, m 2, if u < 0 then None else Some (nat_of_int u)))
  | "bcast" -> Some (LBcast (t, m 2, nat_of_int (int_of_string f.(3))))
  | "ev" ->
      let a = int_of_string f.(3) in
      let e = match f.(2) with
        | "new" -> ENew (nat_of_int a) | "new_ret" -> ENewRet
        | "assign" -> EAssign (nat_of_int a) | "assign_ret" -> EAssignRet
        | "wait" -> EWait | "wait_ret" -> EWaitRet
        | "setlimit" -> ESetLimit (nat_of_int a) | "setlimit_ret" -> ESetLimitRet
        | "free" -> EFree | "free_ret" -> EFreeRet
        | "strict" -> EStrict (a <> 0)
        | "start" -> EStart (nat_of_int a) | "end" -> EEnd (nat_of_int a)
        | _ -> raise (Bad_line line) in
      Some (LEv (t, e))
  | _ -> raise (Bad_line line)

let mname = function QC -> "0" | WC -> "1"
let line_of_label (l : label) : string option =
  let i = int_of_nat in
  match l with
  | LTau _ -> None
  | LBegin t -> Some (Printf.sprintf "%d begin" (i t))
  | LExit t -> Some (Printf.sprintf "%d exit" (i t))
  | LCont t -> Some (Printf.sprintf "%d cont" (i t))
  | LYield t -> Some (Printf.sprintf "%d yield" (i t))
  | LCreate (t, u) -> Some (Printf.sprintf "%d create %d" (i t) (i u))
  | LJoin (t, u) -> Some (Printf.sprintf "%d join %d" (i t) (i u))
  | LLock (t, m) -> Some (Printf.sprintf "%d lock m%s" (i t) (mname m))
  | LUnlock (t, m) -> Some (Printf.sprintf "%d unlock m%s" (i t) (mname m))
  | LCWait (t, m) -> Some (Printf.sprintf "%d cwait c%s m%s" (i t) (mname m) (mname m))
  | LCWake (t, m, sp) -> Some (Printf.sprintf "%d cwake c%s m%s %d" (i t) (mname m) (mname m) (if sp then 1 else 0))
  | LSignal (t, m, u) -> Some (Printf.sprintf "%d signal c%s %d" (i t) (mname m) (match u with None -> -1 | Some u -> i u))
  | LBcast (t, m, n) -> Some (Printf.sprintf "%d bcast c%s %d" (i t) (mname m) (i n))
  | LEv (t, e) ->
      let (tag, a) = match e with
        | ENew n -> ("new", i n) | ENewRet -> ("new_ret", 0) | EAssign k -> ("assign", i k) | EAssignRet -> ("assign_ret", 0)
        | EWait -> ("wait", 0) | EWaitRet -> ("wait_ret", 0) | ESetLimit m -> ("setlimit", i m) | ESetLimitRet -> ("setlimit_ret", 0)
        | EFree -> ("free", 0) | EFreeRet -> ("free_ret", 0) | EStrict b -> ("strict", if b then 1 else 0)
        | EStart k -> ("start", i k) | EEnd k -> ("end", i k) in
      Some (Printf.sprintf "%d ev %s %d" (i t) tag a)
let coq_of_label (l : label) : string =
  let i = int_of_nat in
  let m = function QC -> "QC" | WC -> "WC" in
  match l with
  | LTau t -> Printf.sprintf "LTau %d" (i t)
  | LBegin t -> Printf.sprintf "LBegin %d" (i t)
  | LExit t -> Printf.sprintf "LExit %d" (i t)
  | LCont t -> Printf.sprintf "LCont %d" (i t)
  | LYield t -> Printf.sprintf "LYield %d" (i t)
  | LCreate (t, u) -> Printf.sprintf "LCreate %d %d" (i t) (i u)
  | LJoin (t, u) -> Printf.sprintf "LJoin %d %d" (i t) (i u)
  | LLock (t, x) -> Printf.sprintf "LLock %d %s" (i t) (m x)
  | LUnlock (t, x) -> Printf.sprintf "LUnlock %d %s" (i t) (m x)
  | LCWait (t, x) -> Printf.sprintf "LCWait %d %s" (i t) (m x)
  | LCWake (t, x, sp) -> Printf.sprintf "LCWake %d %s %b" (i t) (m x) sp
  | LSignal (t, x, u) -> Printf.sprintf "LSignal %d %s %s" (i t) (m x) (match u with None -> "None" | Some u -> Printf.sprintf "(Some %d)" (i u))
  | LBcast (t, x, n) -> Printf.sprintf "LBcast %d %s %d" (i t) (m x) (i n)
  | LEv (t, e) ->
      let es = match e with
        | ENew n -> Printf.sprintf "(ENew %d)" (i n) | ENewRet -> "ENewRet" | EAssign k -> Printf.sprintf "(EAssign %d)" (i k) | EAssignRet -> "EAssignRet"
        | EWait -> "EWait" | EWaitRet -> "EWaitRet" | ESetLimit k -> Printf.sprintf "(ESetLimit %d)" (i k) | ESetLimitRet -> "ESetLimitRet"
        | EFree -> "EFree" | EFreeRet -> "EFreeRet" | EStrict b -> Printf.sprintf "(EStrict %b)" b
        | EStart k -> Printf.sprintf "(EStart %d)" (i k) | EEnd k -> Printf.sprintf "(EEnd %d)" (i k) in
      Printf.sprintf "LEv %d %s" (i t) es

(* scheduling points of the shim: every event except unlock / ev / tau *)
let follow_tid (l : label) : int option =
  let i = int_of_nat in
  match l with
  | LTau _ | LUnlock _ | LEv _ -> None
  | LCWake (t, _, true) -> Some (64 + i t)
  | LBegin t | LExit t | LCont t | LYield t | LCreate (t, _) | LJoin (t, _) | LLock (t, _) | LCWait (t, _)
  | LCWake (t, _, _) | LSignal (t, _, _) | LBcast (t, _, _) -> Some (i t)

let label_tid = function
  | LBegin t | LTau t | LLock (t, _) | LUnlock (t, _) | LCont t | LCWait (t, _) | LCWake (t, _, _) | LSignal (t, _, _)
  | LBcast (t, _, _) | LCreate (t, _) | LJoin (t, _) | LExit t | LYield t | LEv (t, _) -> t

let kind_hist : (string, int) Hashtbl.t = Hashtbl.create 32
let bump h k = Hashtbl.replace h k (1 + (try Hashtbl.find h k with Not_found -> 0))

let () =
  let args = Array.to_list Sys.argv in
  let strict = List.mem "--strict" args in
  (match args with
   | _ :: "--witness" :: name :: _ ->
       let tr = match name with "limit_running" -> witness_limit_running | "round" -> example_round
         | "nested" -> example_nested | "inline" -> example_inline | "worker_inline" -> example_worker_inline
         | "repaired" -> example_repaired | _ -> failwith "unknown witness" in
       List.iter (fun l -> match line_of_label l with Some s -> print_endline s | None -> ()) tr;
       print_string "follow ";
       print_endline (String.concat "," (List.filter_map (fun l -> match follow_tid l with Some t -> Some (string_of_int t) | None -> None) tr));
       exit 0
   | _ -> ());
  let stepf = if strict then step_d else step in
  let init0 = if List.mem "--repaired" args then init_r else init in
  let coq_trace = List.mem "--coq-trace" args in
  let runs = ref 0 and events = ref 0 and ok = ref 0 and rejects = ref 0 and invfail = ref 0
  and harness_bad = ref 0 and deadlocks = ref 0 and dead_confirmed = ref 0 and skipped = ref 0 and taus = ref 0 and spurious = ref 0
  and maxlen = ref 0 and nested_runs = ref 0 and distinct = Hashtbl.create 1024 in
  let hdr = ref [||] in
  let st = ref init0 and idx = ref 0 and failed = ref None and in_block = ref false and nested = ref false in
  let coqbuf = Buffer.create 4096 in
  let digest = Buffer.create 4096 in
  let field k = let h = !hdr in let r = ref "-" in Array.iteri (fun i x -> if x = k && i + 1 < Array.length h then r := h.(i + 1)) h; !r in
  let finish () =
    incr runs;
    let status = int_of_string (field "status") and rc = int_of_string (field "rc") in
    let id = Printf.sprintf "run=%s script=%s sched=%s" (field "run") (field "script") (field "sched") in
    if !idx > !maxlen then maxlen := !idx;
    Hashtbl.replace distinct (Digest.string (Buffer.contents digest)) ();
    let model_bad = (match !failed with
      | Some (k, i, line) -> (if k = "model-reject" then incr rejects else incr invfail);
          Printf.printf "BAD kind=%s idx=%d status=%d %s event=\"%s\"\n" k i status id line; true
      | None -> false) in
    if status = 1 then begin
      incr deadlocks;
      let confirmed = (not model_bad) && dead_state !st in
      if confirmed then incr dead_confirmed;
      Printf.printf "BAD kind=deadlock model_dead=%b status=%d %s\n" confirmed status id
    end else if status <> 0 || rc <> 0 then begin
      incr harness_bad;
      Printf.printf "BAD kind=harness status=%d rc=%d what=%s div=%s %s\n" status rc (field "what") (field "div") id
    end else if not model_bad then begin
      (* completed run: final-state facts *)
      let s = !st in
      let script = field "script" in
      let ends_free = String.length script > 0 && (script.[String.length script - 1] = 'f' || script.[String.length script - 1] = 'F') in
      if coq_trace then Printf.printf "COQTRACE %s [ %s ]\n" script (Buffer.contents coqbuf);
      if ends_free && not (s.pc0 = CDone && chk_final s) then begin
        incr invfail; Printf.printf "BAD kind=final-state status=%d %s\n" status id
      end else incr ok
    end in
  (try
    while true do
      let line = input_line stdin in
      let n = String.length line in
      if n > 5 && String.sub line 0 5 = "# run" then begin
        hdr := Array.of_list (String.split_on_char ' ' line);
        st := init0; idx := 0; failed := None; in_block := true; Buffer.clear digest; Buffer.clear coqbuf;
        nested := (let sc = field "script" in String.contains sc 'N' || String.contains sc 'B' || String.contains sc 'D');
        if !nested then incr nested_runs
      end else if line = "# end" then begin
        if !in_block then finish (); in_block := false
      end else if n > 0 && line.[0] = '#' then ()
      else if !in_block then begin
        incr idx; incr events; Buffer.add_string digest line; Buffer.add_char digest '\n';
        if !failed = None then begin
          match (try label_of_line line with Bad_line _ | Failure _ | Invalid_argument _ -> failed := Some ("model-reject", !idx, line); None) with
          | None -> ()
          | Some l ->
              bump kind_hist (match String.split_on_char ' ' line with _ :: k :: "start" :: _ when k = "ev" -> "ev-start" | _ :: "ev" :: t :: _ -> "ev-" ^ t | _ :: k :: _ -> k | _ -> "?");
              (match l with LCWake (_, _, true) -> incr spurious | _ -> ());
              (match stepf !st l with
               | None -> failed := Some ("model-reject", !idx, line)
               | Some s1 ->
                   if coq_trace then Buffer.add_string coqbuf (coq_of_label l ^ "; ");
                   let s2 = (match label_tid l with
                     | O -> s1
                     | w -> (match stepf s1 (LTau w) with
                             | Some s2 -> incr taus; if coq_trace then Buffer.add_string coqbuf (coq_of_label (LTau w) ^ "; "); s2
                             | None -> s1)) in
                   st := s2;
                   if not (chk_all s2) then
                     failed := Some ((if not (chk_conservation s2) then "inv-conservation" else if not (chk_busy s2) then "inv-busy"
                                      else if not (chk_barrier s2) then "inv-barrier" else "inv-final"), !idx, line))
        end
      end
    done
  with End_of_file -> ());
  let hist = String.concat "," (List.sort compare (Hashtbl.fold (fun k v acc -> (k ^ ":" ^ string_of_int v) :: acc) kind_hist [])) in
  Printf.printf "SUMMARY runs=%d events=%d ok=%d model_reject=%d inv_fail=%d harness_bad=%d deadlock=%d deadlock_model_confirmed=%d skipped_model=%d nested_runs=%d taus=%d spurious=%d distinct_traces=%d max_trace_len=%d hist=%s\n"
    !runs !events !ok !rejects !invfail !harness_bad !deadlocks !dead_confirmed !skipped !nested_runs !taus !spurious (Hashtbl.length distinct) !maxlen hist
